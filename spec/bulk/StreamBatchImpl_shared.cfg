CONSTANTS
 MaxLen = 3
 Alpha = "safe"
 BatchSizes = {1}
 FailIds = {"b"}
 SplitAppend = TRUE
SPECIFICATION Spec
INVARIANT NoLostError
CHECK_DEADLOCK FALSE
