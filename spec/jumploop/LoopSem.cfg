CONSTANT MaxD = 4
INIT Init
NEXT Next
INVARIANT EmitCase
CHECK_DEADLOCK FALSE
