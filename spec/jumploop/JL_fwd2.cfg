CONSTANTS
 N = 1
 D = 1
 Fan = 1
 NJ = 1
 NF = 2
 FT = 1
 CapIn = 1
 CapBody = 1
 CapJ = 1
 CapQ = 1
 CapOut = 1
 Faithful = TRUE
SPECIFICATION Spec
INVARIANTS NoPanic NoDup Exact CleanClose TypeOK
PROPERTY Termination
CHECK_DEADLOCK FALSE
