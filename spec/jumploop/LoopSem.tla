----------------------------- MODULE LoopSem -----------------------------
(* C12, result semantics of the documented counter loop on arbitrary      *)
(* graphs (the protocol model JumpLoop.tla only ever sees chain graphs):  *)
(*                                                                        *)
(*   V(starts).set("count", 0).as("start").mark("a").out()                *)
(*            .increment("$start.count", 1)                               *)
(*     A:     .has(lt("$start.count", D)).jump("a", none, emit)           *)
(*     B:     .jump("a", lt("$start.count", D), emit)                     *)
(*                                                                        *)
(* Iterative definition: a traveler carries its own copy of the counter   *)
(* (set/increment act on the traveler's copy of the mark); after k passes *)
(* of the body the travelers are the walks of length k from the starts,   *)
(* each with counter k.  Variant A emits (once per pass) the walks of     *)
(* length 1..D-1; variant B emits the walks of length 1..D and sends the  *)
(* ones shorter than D back.  Rows are compared as multisets of vertices. *)
EXTENDS Graphs

CONSTANT MaxD

Verts(g) == DOMAIN g.V
\* number of edges u -> v (parallel edges count, edges to absent vertices do not exist for out())
EdgeCount(g, u, v) == Cardinality({e \in DOMAIN g.E : g.E[e].from = u /\ g.E[e].to = v})
SumOver(Dom, F(_)) == LET f[T \in SUBSET Dom] == IF T = {} THEN 0 ELSE LET x == CHOOSE y \in T : TRUE IN F(x) + f[T \ {x}] IN f[Dom]

\* one pass of the body: bag of vertices (function vertex -> multiplicity) after following every out-edge
Pass(g, b) == [v \in Verts(g) |-> SumOver(Verts(g), LAMBDA u : b[u] * EdgeCount(g, u, v))]
RECURSIVE Walks(_, _, _)
Walks(g, b0, k) == IF k = 0 THEN b0 ELSE Pass(g, Walks(g, b0, k - 1))

StartBag(g, ids) == [v \in Verts(g) |-> IF ids = <<>> \/ v \in SeqToSet(ids) THEN 1 ELSE 0]
Emitted(g, ids, lo, hi) == [v \in Verts(g) |-> SumOver(lo..hi, LAMBDA k : Walks(g, StartBag(g, ids), k)[v])]

VARIABLES gi, d, variant, ids
Init == /\ gi \in 2..Len(GraphFamily) /\ d \in 1..MaxD /\ variant \in {"A", "B"}
        /\ ids \in {<<>>, <<"a">>, <<"b", "zz">>}
Next == UNCHANGED <<gi, d, variant, ids>>

Prog ==
  << [op |-> "V", ids |-> ids], [op |-> "set", key |-> "count", value |-> N(0)], [op |-> "as", name |-> "start"],
     [op |-> "mark", name |-> "a"], [op |-> "out", labels |-> <<>>], [op |-> "increment", key |-> "$start.count", n |-> 1] >>
  \o (IF variant = "A"
      THEN << [op |-> "has", e |-> [t |-> "c", op |-> "lt", key |-> "$start.count", arg |-> N(d)]],
              [op |-> "jump", mark |-> "a", emit |-> TRUE] >>
      ELSE << [op |-> "jump", mark |-> "a", emit |-> TRUE, e |-> [t |-> "c", op |-> "lt", key |-> "$start.count", arg |-> N(d)]] >>)

Expect == LET g == GraphFamily[gi] IN
          IF variant = "A" THEN Emitted(g, ids, 1, d - 1) ELSE Emitted(g, ids, 1, d)

EmitCase == Emit("loop", [g |-> gi, d |-> d, variant |-> variant, prog |-> Prog, expect |-> Expect])
EmitGraphs == Emit("graphs", [i \in DOMAIN GraphFamily |-> [V |-> GraphFamily[i].V, E |-> GraphFamily[i].E]])
ASSUME EmitGraphs
=============================================================================
