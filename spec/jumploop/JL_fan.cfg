CONSTANTS
 N = 2
 D = 2
 Fan = 2
 NJ = 1
 NF = 0
 FT = 0
 CapIn = 1
 CapBody = 2
 CapJ = 1
 CapQ = 1
 CapOut = 1
 Faithful = TRUE
SPECIFICATION Spec
INVARIANTS NoPanic NoDup Exact CleanClose TypeOK
PROPERTY Termination
CHECK_DEADLOCK FALSE
