-------------------------- MODULE JumpLoopTrace --------------------------
(* Trace validation for C12: the events recorded by the verif taps of     *)
(* engine/logic/jump.go during REAL mark/jump traversals are replayed     *)
(* against JumpLoop.tla.  Events are ordered per goroutine only (the mark *)
(* and each jump); TLC searches for an interleaving - with the queue,     *)
(* body, feeder and sink steps inferred as silent actions - in which      *)
(* every recorded event is the next step of the model, the recorded       *)
(* scalars (input index, signal id, returnCount, number of inputs) equal  *)
(* the model's, and the rows the real traversal returned are the bag the  *)
(* model's sink received.  Several traces of one configuration are        *)
(* validated in one run (TraceReset).                                     *)
EXTENDS JumpLoop, Json

Traces == ndJsonDeserialize("traces.ndjson")

VARIABLES tn, lm, lj
tvars == <<tn, lm, lj>>

MEv == Traces[tn].mark
JEv(j) == IF j = 1 THEN Traces[tn].jump1 ELSE Traces[tn].jump2

Match(e, m) == IF IsSig(m) THEN "sig" \in DOMAIN e /\ e.sig = m[2]
               ELSE "id" \in DOMAIN e /\ e.id = m[2] /\ e.c = m[3]
MNext(name) == lm <= Len(MEv) /\ MEv[lm].ev = name
JNextEv(j, name) == lj[j] <= Len(JEv(j)) /\ JEv(j)[lj[j]].ev = name

TraceInit == Init /\ tn = 1 /\ lm = 1 /\ lj = [j \in Jumps |-> 1]

Silent(A) == A /\ UNCHANGED tvars
MarkEv(A, cond) == A /\ cond /\ lm' = lm + 1 /\ UNCHANGED <<tn, lj>>
JumpEv(j, A, cond) == A /\ cond /\ lj' = [lj EXCEPT ![j] = @ + 1] /\ UNCHANGED <<tn, lm>>

TMarkSend ==
  MarkEv(MarkSend,
         CASE mpc \in {"p1_send", "p2_send"} -> MNext("m_fwd") /\ MEv[lm].a0 = mi - 1 /\ Match(MEv[lm], mmsg)
           [] mpc = "p1_insend"  -> MNext("m_in") /\ Match(MEv[lm], mmsg)
           [] mpc = "p2_sigsend" -> MNext("m_sig") /\ MEv[lm].a0 = mmsg[2]
           [] OTHER -> FALSE)
TMarkPoll ==
  \/ (MarkPoll /\ returnCount' = returnCount /\ UNCHANGED tvars)
  \/ MarkEv(MarkPoll /\ returnCount' = returnCount + 1,
             MNext("m_ret") /\ MEv[lm].a0 = mi - 1 /\ MEv[lm].sig = Head(qout[inputs[mi]])[2] /\ MEv[lm].a2 = returnCount + 1)
TMarkRemove ==
  \/ (MarkRemove /\ closeList = <<>> /\ UNCHANGED tvars)
  \/ MarkEv(MarkRemove /\ closeList # <<>> /\ mpc' # "panic",
             MNext("m_remove") /\ MEv[lm].a0 = [n \in DOMAIN closeList |-> closeList[n] - 1] /\ MEv[lm].a1 = Len(inputs'))
TMarkIn ==
  \/ (MarkIn /\ mpc' # "p2_poll" /\ UNCHANGED tvars)
  \/ MarkEv(MarkIn /\ mpc' = "p2_poll", MNext("m_phase2"))
TMarkDecide ==
  \/ (MarkDecide /\ mpc' # "done" /\ UNCHANGED tvars)
  \/ MarkEv(MarkDecide /\ mpc' = "done", MNext("m_close") /\ MEv[lm].a0 = returnCount /\ MEv[lm].a1 = NInputs)
TJumpJump(j) ==
  \/ (JumpJump(j) /\ IsSig(jmsg[j]) /\ UNCHANGED tvars)
  \/ JumpEv(j, JumpJump(j) /\ ~IsSig(jmsg[j]), JNextEv(j, "j_jump") /\ Match(JEv(j)[lj[j]], jmsg[j]))
TJumpOut(j) ==
  JumpEv(j, JumpOut(j), JNextEv(j, IF IsSig(jmsg[j]) THEN "j_sig" ELSE "j_emit") /\ Match(JEv(j)[lj[j]], jmsg[j]))
TJumpEnd(j) == JumpEv(j, JumpEnd(j), JNextEv(j, "j_close"))

RowsBag == LET rows == Traces[tn].rows
               f[n \in 0..Len(rows)] == IF n = 0 THEN EmptyBag ELSE f[n - 1] (+) SetToBag({Trav(rows[n][1], rows[n][2])})
           IN f[Len(rows)]
Accepted == /\ lm > Len(MEv) /\ \A j \in Jumps : lj[j] > Len(JEv(j))
            /\ sinkDone /\ got = RowsBag

TraceReset ==
  /\ Accepted /\ tn < Len(Traces)
  /\ tn' = tn + 1 /\ lm' = 1 /\ lj' = [j \in Jumps |-> 1]
  /\ inch' = <<>> /\ inClosed' = FALSE
  /\ body' = <<>> /\ bodyClosed' = FALSE
  /\ jin' = [j \in 1..(NJ + 1) |-> <<>>] /\ jinClosed' = [j \in 1..(NJ + 1) |-> FALSE]
  /\ qin' = [k \in Queues |-> <<>>] /\ qinClosed' = [k \in Queues |-> FALSE]
  /\ qslice' = [k \in Queues |-> <<>>] /\ qflag' = [k \in Queues |-> FALSE]
  /\ qout' = [k \in Queues |-> <<>>] /\ qoutClosed' = [k \in Queues |-> FALSE]
  /\ qv' = [k \in Queues |-> <<>>]
  /\ up' = 1..N /\ fwd' = [k \in Queues |-> IF k > NJ THEN 1..FT ELSE {}]
  /\ mpc' = "p1_poll" /\ mi' = 1 /\ inputs' = [n \in 1..(NJ + NF) |-> IF n <= NF THEN NJ + n ELSE n - NF] /\ closeList' = <<>>
  /\ jumperFound' = FALSE /\ mmsg' = <<>>
  /\ curID' = 0 /\ returnCount' = 0 /\ signalActive' = FALSE /\ signalOutdated' = FALSE
  /\ bpc' = "recv" /\ bmsg' = <<>> /\ bleft' = 0
  /\ jpc' = [j \in Jumps |-> "recv"] /\ jmsg' = [j \in Jumps |-> <<>>]
  /\ qipc' = [k \in Queues |-> "run"] /\ qopc' = [k \in Queues |-> "run"]
  /\ got' = EmptyBag /\ sinkDone' = FALSE

TraceNext ==
  \/ Silent(UpSend) \/ Silent(UpClose) \/ Silent(BodyRecv) \/ Silent(BodySend) \/ Silent(BodyEnd)
  \/ Silent(SinkTake) \/ Silent(SinkEnd)
  \/ \E k \in Queues : Silent(FwdSend(k)) \/ Silent(FwdClose(k)) \/ Silent(QInTake(k)) \/ Silent(QInEnd(k))
                         \/ Silent(QOutPop(k)) \/ Silent(QOutSend(k)) \/ Silent(QOutEnd(k))
  \/ TMarkSend \/ TMarkPoll \/ TMarkRemove \/ TMarkIn \/ TMarkDecide
  \/ \E j \in Jumps : Silent(JumpRecv(j)) \/ TJumpJump(j) \/ TJumpOut(j) \/ TJumpEnd(j)
  \/ TraceReset

TraceSpec == TraceInit /\ [][TraceNext]_<<vars, tvars>>

\* "violated" exactly when every trace of the file has been accepted
NotAllAccepted == ~(tn = Len(Traces) /\ Accepted)
\* progress report for diagnosis of a rejected trace
Progress == TLCSet(1, IF TLCGet(1) < tn * 100000 + lm THEN tn * 100000 + lm ELSE TLCGet(1))
=======================================================================
