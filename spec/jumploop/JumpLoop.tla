---------------------------- MODULE JumpLoop ----------------------------
(* C12, implementation-shaped: the mark/jump signal protocol of          *)
(* engine/logic/jump.go and engine/queue/queue.go, one process per       *)
(* goroutine of the code, bounded channels, every channel operation or   *)
(* critical section one action.                                          *)
(*                                                                       *)
(*   Up ──inch──► Mark ──body──► Body ──jin[1]──► Jump[1] ──jin[2]──► ..  *)
(*                 ▲                                  │ jumpers           *)
(*                 │   qout[j] ◄── QOut[j] ◄─ slice ◄─ QIn[j] ◄─ qin[j]   *)
(*                 └──────────────────────────────────┘   ... ──► Sink    *)
(*                                                                       *)
(* Travelers are <<"t", i, c>> (initial traveler i after c passes of the *)
(* body); signals are <<"s", id>>.  The loop program modelled is          *)
(*   ... mark(m) . body . jump(m, c < D, emit) [. jump(m, cond2, emit)]   *)
(* the body adds one to c and may fan out; travelers whose counter       *)
(* reaches D stop jumping.  Forward jumps (jumps placed before the mark) *)
(* appear as extra inputs of the mark fed by independent producers.      *)
(*                                                                       *)
(* Mark follows JumpMark.Process branch for branch.  Faithful = TRUE is   *)
(* the removal of closed inputs by their ORIGINAL index over a shrinking *)
(* list, as the code did before the fix "mark removes closed jump inputs *)
(* without invalidating the remaining indices" (kept as a regression     *)
(* scenario: it loses the cyclic input or runs out of range when two     *)
(* forward jumps close in one poll cycle); Faithful = FALSE is the code  *)
(* as it is now.                                                         *)
EXTENDS Integers, Sequences, FiniteSets, Bags, TLC, Json

CONSTANTS N,         \* travelers fed by upstream
          D,         \* passes after which a traveler no longer jumps
          Fan,       \* children per traveler in the body (1 or 2) on the first pass
          NJ,        \* cyclic jumps in series (1 or 2)
          NF,        \* forward-jump inputs (0..2), each delivering FT travelers and closing
          FT,
          CapIn, CapBody, CapJ, CapQ, CapOut,
          Faithful   \* TRUE: remove closed inputs exactly as the code does

ASSUME N \in Nat /\ D \in Nat /\ NJ \in 1..2 /\ NF \in 0..2 /\ Fan \in 1..2

VARIABLES
  inch, inClosed,            \* upstream -> mark
  body, bodyClosed,          \* mark -> body stage
  jin, jinClosed,            \* jin[j]: input of Jump[j]; jin[NJ+1] is the sink channel
  qin, qinClosed, qslice, qflag, qout, qoutClosed, qv,   \* per input queue k in 1..NJ+NF
  up, fwd,                   \* feeder state: travelers still to send
  mpc, mi, inputs, closeList, jumperFound, mmsg,
  curID, returnCount, signalActive, signalOutdated,
  bpc, bmsg, bleft,
  jpc, jmsg,
  qipc, qopc,
  got, sinkDone

vars == <<inch, inClosed, body, bodyClosed, jin, jinClosed, qin, qinClosed, qslice, qflag, qout, qoutClosed, qv,
          up, fwd, mpc, mi, inputs, closeList, jumperFound, mmsg, curID, returnCount, signalActive, signalOutdated,
          bpc, bmsg, bleft, jpc, jmsg, qipc, qopc, got, sinkDone>>

Queues == 1..(NJ + NF)       \* queues 1..NJ belong to the cyclic jumps, the rest to forward jumps
Jumps  == 1..NJ

IsSig(m) == m[1] = "s"
Trav(i, c) == <<"t", i, c>>

\* jump conditions: the last jump sends every traveler with c < D back; with two jumps the
\* first one sends back the odd-numbered travelers on their first pass only
Cond(j, m) == IF NJ = 2 /\ j = 1 THEN ((m[2] \div 10) % 2 = 1 /\ m[3] = 1) ELSE m[3] < D

------------------------------------------------------------------------
Init ==
  /\ inch = <<>> /\ inClosed = FALSE
  /\ body = <<>> /\ bodyClosed = FALSE
  /\ jin = [j \in 1..(NJ + 1) |-> <<>>] /\ jinClosed = [j \in 1..(NJ + 1) |-> FALSE]
  /\ qin = [k \in Queues |-> <<>>] /\ qinClosed = [k \in Queues |-> FALSE]
  /\ qslice = [k \in Queues |-> <<>>] /\ qflag = [k \in Queues |-> FALSE]
  /\ qout = [k \in Queues |-> <<>>] /\ qoutClosed = [k \in Queues |-> FALSE]
  /\ qv = [k \in Queues |-> <<>>]
  /\ up = 1..N /\ fwd = [k \in Queues |-> IF k > NJ THEN 1..FT ELSE {}]
  /\ mpc = "p1_poll" /\ mi = 1 /\ inputs = [n \in 1..(NJ + NF) |-> IF n <= NF THEN NJ + n ELSE n - NF] /\ closeList = <<>>
  /\ jumperFound = FALSE /\ mmsg = <<>>
  /\ curID = 0 /\ returnCount = 0 /\ signalActive = FALSE /\ signalOutdated = FALSE
  /\ bpc = "recv" /\ bmsg = <<>> /\ bleft = 0
  /\ jpc = [j \in Jumps |-> "recv"] /\ jmsg = [j \in Jumps |-> <<>>]
  /\ qipc = [k \in Queues |-> "run"] /\ qopc = [k \in Queues |-> "run"]
  /\ got = EmptyBag /\ sinkDone = FALSE

------------------------------------------------------------------------
(* feeders                                                               *)
UpSend == /\ up # {} /\ Len(inch) < CapIn
          /\ \E i \in up : inch' = Append(inch, Trav(i, 0)) /\ up' = up \ {i}
          /\ UNCHANGED <<inClosed, body, bodyClosed, jin, jinClosed, qin, qinClosed, qslice, qflag, qout, qoutClosed, qv,
                         fwd, mpc, mi, inputs, closeList, jumperFound, mmsg, curID, returnCount, signalActive, signalOutdated,
                         bpc, bmsg, bleft, jpc, jmsg, qipc, qopc, got, sinkDone>>
UpClose == /\ up = {} /\ ~inClosed /\ inClosed' = TRUE
           /\ UNCHANGED <<inch, body, bodyClosed, jin, jinClosed, qin, qinClosed, qslice, qflag, qout, qoutClosed, qv,
                          up, fwd, mpc, mi, inputs, closeList, jumperFound, mmsg, curID, returnCount, signalActive, signalOutdated,
                          bpc, bmsg, bleft, jpc, jmsg, qipc, qopc, got, sinkDone>>
\* forward jump number k - NJ: its travelers are numbered from 100*(k - NJ) so that they are distinguishable
FwdSend(k) == /\ k > NJ /\ fwd[k] # {} /\ Len(qin[k]) < CapQ
              /\ \E n \in fwd[k] : /\ qin' = [qin EXCEPT ![k] = Append(@, Trav(100 * (k - NJ) + n, 0))]
                                     /\ fwd' = [fwd EXCEPT ![k] = @ \ {n}]
              /\ UNCHANGED <<inch, inClosed, body, bodyClosed, jin, jinClosed, qinClosed, qslice, qflag, qout, qoutClosed, qv,
                             up, mpc, mi, inputs, closeList, jumperFound, mmsg, curID, returnCount, signalActive, signalOutdated,
                             bpc, bmsg, bleft, jpc, jmsg, qipc, qopc, got, sinkDone>>
FwdClose(k) == /\ k > NJ /\ fwd[k] = {} /\ ~qinClosed[k]
               /\ qinClosed' = [qinClosed EXCEPT ![k] = TRUE]
               /\ UNCHANGED <<inch, inClosed, body, bodyClosed, jin, jinClosed, qin, qslice, qflag, qout, qoutClosed, qv,
                              up, fwd, mpc, mi, inputs, closeList, jumperFound, mmsg, curID, returnCount, signalActive, signalOutdated,
                              bpc, bmsg, bleft, jpc, jmsg, qipc, qopc, got, sinkDone>>

------------------------------------------------------------------------
(* the queue of engine/queue: two goroutines around a slice               *)
QInTake(k) == /\ qipc[k] = "run" /\ qin[k] # <<>>
              /\ qslice' = [qslice EXCEPT ![k] = Append(@, Head(qin[k]))]
              /\ qin' = [qin EXCEPT ![k] = Tail(@)]
              /\ UNCHANGED <<inch, inClosed, body, bodyClosed, jin, jinClosed, qinClosed, qflag, qout, qoutClosed, qv,
                             up, fwd, mpc, mi, inputs, closeList, jumperFound, mmsg, curID, returnCount, signalActive, signalOutdated,
                             bpc, bmsg, bleft, jpc, jmsg, qipc, qopc, got, sinkDone>>
QInEnd(k) == /\ qipc[k] = "run" /\ qin[k] = <<>> /\ qinClosed[k]
             /\ qflag' = [qflag EXCEPT ![k] = TRUE] /\ qipc' = [qipc EXCEPT ![k] = "done"]
             /\ UNCHANGED <<inch, inClosed, body, bodyClosed, jin, jinClosed, qin, qinClosed, qslice, qout, qoutClosed, qv,
                            up, fwd, mpc, mi, inputs, closeList, jumperFound, mmsg, curID, returnCount, signalActive, signalOutdated,
                            bpc, bmsg, bleft, jpc, jmsg, qopc, got, sinkDone>>
QOutPop(k) == /\ qopc[k] = "run" /\ qslice[k] # <<>>
              /\ qv' = [qv EXCEPT ![k] = Head(qslice[k])] /\ qslice' = [qslice EXCEPT ![k] = Tail(@)]
              /\ qopc' = [qopc EXCEPT ![k] = "send"]
              /\ UNCHANGED <<inch, inClosed, body, bodyClosed, jin, jinClosed, qin, qinClosed, qflag, qout, qoutClosed,
                             up, fwd, mpc, mi, inputs, closeList, jumperFound, mmsg, curID, returnCount, signalActive, signalOutdated,
                             bpc, bmsg, bleft, jpc, jmsg, qipc, got, sinkDone>>
QOutSend(k) == /\ qopc[k] = "send" /\ Len(qout[k]) < CapQ
               /\ qout' = [qout EXCEPT ![k] = Append(@, qv[k])] /\ qv' = [qv EXCEPT ![k] = <<>>]
               /\ qopc' = [qopc EXCEPT ![k] = "run"]
               /\ UNCHANGED <<inch, inClosed, body, bodyClosed, jin, jinClosed, qin, qinClosed, qslice, qflag, qoutClosed,
                              up, fwd, mpc, mi, inputs, closeList, jumperFound, mmsg, curID, returnCount, signalActive, signalOutdated,
                              bpc, bmsg, bleft, jpc, jmsg, qipc, got, sinkDone>>
QOutEnd(k) == /\ qopc[k] = "run" /\ qslice[k] = <<>> /\ qflag[k]
              /\ qoutClosed' = [qoutClosed EXCEPT ![k] = TRUE] /\ qopc' = [qopc EXCEPT ![k] = "done"]
              /\ UNCHANGED <<inch, inClosed, body, bodyClosed, jin, jinClosed, qin, qinClosed, qslice, qflag, qout, qv,
                             up, fwd, mpc, mi, inputs, closeList, jumperFound, mmsg, curID, returnCount, signalActive, signalOutdated,
                             bpc, bmsg, bleft, jpc, jmsg, qipc, got, sinkDone>>

------------------------------------------------------------------------
(* JumpMark.Process                                                       *)
MarkUnch == <<inClosed, jin, jinClosed, qin, qinClosed, qslice, qflag, qoutClosed, qv, up, fwd,
              bpc, bmsg, bleft, jpc, jmsg, qipc, qopc, got, sinkDone>>

NInputs == Len(inputs)
Phase1 == mpc \in {"p1_poll", "p1_send", "p1_remove", "p1_in"}

\* non-blocking receive on input number mi of the current list (both phases)
MarkPoll ==
  /\ mpc \in {"p1_poll", "p2_poll"}
  /\ LET p2 == mpc = "p2_poll" IN
     IF mi > NInputs
     THEN /\ mpc' = IF p2 THEN "p2_remove" ELSE "p1_remove"
          /\ UNCHANGED <<inch, body, bodyClosed, qout, mi, inputs, closeList, jumperFound, mmsg,
                         curID, returnCount, signalActive, signalOutdated>>
     ELSE LET k == inputs[mi] IN
          IF qout[k] # <<>>
          THEN LET m == Head(qout[k]) IN
               /\ qout' = [qout EXCEPT ![k] = Tail(@)]
               /\ IF p2 /\ IsSig(m)
                  THEN /\ returnCount' = returnCount + 1
                       /\ mi' = mi + 1
                       /\ UNCHANGED <<mpc, mmsg, jumperFound, signalOutdated>>
                  ELSE /\ mmsg' = m /\ jumperFound' = TRUE
                       /\ signalOutdated' = IF p2 /\ signalActive THEN TRUE ELSE signalOutdated
                       /\ mpc' = IF p2 THEN "p2_send" ELSE "p1_send"
                       /\ UNCHANGED <<mi, returnCount>>
               /\ UNCHANGED <<inch, body, bodyClosed, inputs, closeList, curID, signalActive>>
          ELSE IF qoutClosed[k]
          THEN /\ closeList' = Append(closeList, mi) /\ mi' = mi + 1
               /\ UNCHANGED <<inch, body, bodyClosed, qout, mpc, inputs, jumperFound, mmsg,
                              curID, returnCount, signalActive, signalOutdated>>
          ELSE /\ mi' = mi + 1      \* default: nothing there
               /\ UNCHANGED <<inch, body, bodyClosed, qout, mpc, inputs, closeList, jumperFound, mmsg,
                              curID, returnCount, signalActive, signalOutdated>>
  /\ UNCHANGED MarkUnch

\* out <- msg (blocking)
MarkSend ==
  /\ mpc \in {"p1_send", "p2_send", "p1_insend", "p2_sigsend"}
  /\ Len(body) < CapBody
  /\ body' = Append(body, mmsg) /\ mmsg' = <<>>
  /\ mpc' = CASE mpc = "p1_send" -> "p1_poll" [] mpc = "p2_send" -> "p2_poll"
              [] mpc = "p1_insend" -> "p1_poll" [] mpc = "p2_sigsend" -> "p2_poll"
  /\ mi' = IF mpc \in {"p1_send", "p2_send"} THEN mi + 1 ELSE 1
  /\ jumperFound' = IF mpc \in {"p1_insend", "p2_sigsend"} THEN FALSE ELSE jumperFound
  /\ UNCHANGED <<inch, bodyClosed, qout, inputs, closeList, curID, returnCount, signalActive, signalOutdated>>
  /\ UNCHANGED MarkUnch

\* for _, i := range closeList { inputs = append(inputs[:i], inputs[i+1:]...) }   (0-based i in the code)
RemoveAt(s, i) == SubSeq(s, 1, i - 1) \o SubSeq(s, i + 1, Len(s))
FaithfulRemoval == LET f[n \in 0..Len(closeList)] ==
                         IF n = 0 THEN inputs
                         ELSE IF f[n - 1] = <<0>> \/ closeList[n] > Len(f[n - 1]) THEN <<0>>
                         ELSE RemoveAt(f[n - 1], closeList[n])
                   IN f[Len(closeList)]
CorrectRemoval == SelectSeq(inputs, LAMBDA k : \A n \in DOMAIN closeList : inputs[closeList[n]] # k)
MarkRemove ==
  /\ mpc \in {"p1_remove", "p2_remove"}
  /\ LET r == IF Faithful THEN FaithfulRemoval ELSE CorrectRemoval IN
     IF r = <<0>>
     THEN mpc' = "panic" /\ UNCHANGED inputs
     ELSE /\ inputs' = r
          /\ mpc' = IF mpc = "p1_remove" THEN "p1_in" ELSE "p2_decide"
  /\ closeList' = <<>>
  /\ UNCHANGED <<inch, body, bodyClosed, qout, mi, jumperFound, mmsg, curID, returnCount, signalActive, signalOutdated>>
  /\ UNCHANGED MarkUnch

\* phase 1: if no jumper was found, non-blocking receive on the main input
MarkIn ==
  /\ mpc = "p1_in"
  /\ IF jumperFound
     THEN /\ mpc' = "p1_poll" /\ mi' = 1 /\ jumperFound' = FALSE
          /\ UNCHANGED <<inch, mmsg>>
     ELSE IF inch # <<>>
     THEN /\ mmsg' = Head(inch) /\ inch' = Tail(inch) /\ mpc' = "p1_insend"
          /\ UNCHANGED <<mi, jumperFound>>
     ELSE IF inClosed
     THEN /\ mpc' = "p2_poll" /\ mi' = 1 /\ UNCHANGED <<inch, mmsg, jumperFound>>
     ELSE /\ mpc' = "p1_poll" /\ mi' = 1 /\ UNCHANGED <<inch, mmsg, jumperFound>>
  /\ UNCHANGED <<body, bodyClosed, qout, inputs, closeList, curID, returnCount, signalActive, signalOutdated>>
  /\ UNCHANGED MarkUnch

\* phase 2 decision at the end of a poll cycle
MarkDecide ==
  /\ mpc = "p2_decide"
  /\ IF jumperFound
     THEN /\ mpc' = "p2_poll" /\ mi' = 1 /\ jumperFound' = FALSE
          /\ UNCHANGED <<mmsg, curID, returnCount, signalActive, signalOutdated, bodyClosed>>
     ELSE IF (~signalActive /\ ~signalOutdated) \/ (signalOutdated /\ returnCount = NInputs)
     THEN /\ curID' = curID + 1 /\ signalActive' = TRUE /\ signalOutdated' = FALSE /\ returnCount' = 0
          /\ mmsg' = <<"s", curID + 1>> /\ mpc' = "p2_sigsend"
          /\ UNCHANGED <<mi, jumperFound, bodyClosed>>
     ELSE IF signalActive /\ returnCount = NInputs
     THEN /\ mpc' = "done" /\ bodyClosed' = TRUE       \* close(out)
          /\ UNCHANGED <<mi, jumperFound, mmsg, curID, returnCount, signalActive, signalOutdated>>
     ELSE /\ mpc' = "p2_poll" /\ mi' = 1
          /\ UNCHANGED <<jumperFound, mmsg, curID, returnCount, signalActive, signalOutdated, bodyClosed>>
  /\ UNCHANGED <<inch, body, qout, inputs, closeList>>
  /\ UNCHANGED MarkUnch

------------------------------------------------------------------------
(* the loop body: an order-preserving stage that adds one pass and may fan out *)
BodyUnch == <<inch, inClosed, bodyClosed, qin, qinClosed, qslice, qflag, qout, qoutClosed, qv, up, fwd,
              mpc, mi, inputs, closeList, jumperFound, mmsg, curID, returnCount, signalActive, signalOutdated,
              jpc, jmsg, qipc, qopc, got, sinkDone>>
BodyRecv == /\ bpc = "recv" /\ body # <<>>
            /\ LET m == Head(body) IN
               /\ bmsg' = IF IsSig(m) THEN m ELSE Trav(m[2], m[3] + 1)
               /\ bleft' = IF IsSig(m) \/ m[3] > 0 THEN 1 ELSE Fan
            /\ body' = Tail(body) /\ bpc' = "send"
            /\ UNCHANGED <<jin, jinClosed>> /\ UNCHANGED BodyUnch
BodySend == /\ bpc = "send" /\ Len(jin[1]) < CapJ
            /\ jin' = [jin EXCEPT ![1] = Append(@, IF IsSig(bmsg) \/ bmsg[3] > 1 THEN bmsg
                                                   ELSE Trav(bmsg[2] * 10 + (Fan - bleft), bmsg[3]))]
            /\ bleft' = bleft - 1
            /\ bpc' = IF bleft = 1 THEN "recv" ELSE "send"
            /\ bmsg' = IF bleft = 1 THEN <<>> ELSE bmsg
            /\ UNCHANGED <<body, jinClosed>> /\ UNCHANGED BodyUnch
BodyEnd == /\ bpc = "recv" /\ body = <<>> /\ bodyClosed
           /\ jinClosed' = [jinClosed EXCEPT ![1] = TRUE] /\ bpc' = "done"
           /\ UNCHANGED <<body, jin, bmsg, bleft>> /\ UNCHANGED BodyUnch

------------------------------------------------------------------------
(* Jump.Process                                                           *)
JumpUnch == <<inch, inClosed, body, bodyClosed, qslice, qflag, qout, qoutClosed, qv, up, fwd,
              mpc, mi, inputs, closeList, jumperFound, mmsg, curID, returnCount, signalActive, signalOutdated,
              bpc, bmsg, bleft, qipc, qopc, got, sinkDone>>
JumpRecv(j) == /\ jpc[j] = "recv" /\ jin[j] # <<>>
               /\ LET m == Head(jin[j]) IN
                  /\ jmsg' = [jmsg EXCEPT ![j] = m]
                  /\ jpc' = [jpc EXCEPT ![j] = IF IsSig(m) \/ Cond(j, m) THEN "tojump" ELSE "toout"]
               /\ jin' = [jin EXCEPT ![j] = Tail(@)]
               /\ UNCHANGED <<jinClosed, qin, qinClosed>> /\ UNCHANGED JumpUnch
\* s.jumpers <- t
JumpJump(j) == /\ jpc[j] = "tojump" /\ Len(qin[j]) < CapQ
               /\ qin' = [qin EXCEPT ![j] = Append(@, jmsg[j])]
               /\ jpc' = [jpc EXCEPT ![j] = "toout"]
               /\ UNCHANGED <<jin, jinClosed, qinClosed, jmsg>> /\ UNCHANGED JumpUnch
\* out <- t (signals) / out <- t.Copy() (emit)
JumpOut(j) == /\ jpc[j] = "toout" /\ Len(jin[j + 1]) < (IF j = NJ THEN CapOut ELSE CapJ)
              /\ jin' = [jin EXCEPT ![j + 1] = Append(@, jmsg[j])]
              /\ jmsg' = [jmsg EXCEPT ![j] = <<>>] /\ jpc' = [jpc EXCEPT ![j] = "recv"]
              /\ UNCHANGED <<jinClosed, qin, qinClosed>> /\ UNCHANGED JumpUnch
JumpEnd(j) == /\ jpc[j] = "recv" /\ jin[j] = <<>> /\ jinClosed[j]
              /\ qinClosed' = [qinClosed EXCEPT ![j] = TRUE]          \* close(s.jumpers)
              /\ jinClosed' = [jinClosed EXCEPT ![j + 1] = TRUE]      \* close(out)
              /\ jpc' = [jpc EXCEPT ![j] = "done"]
              /\ UNCHANGED <<jin, qin, jmsg>> /\ UNCHANGED JumpUnch

------------------------------------------------------------------------
SinkTake == /\ jin[NJ + 1] # <<>>
            /\ got' = IF IsSig(Head(jin[NJ + 1])) THEN got ELSE got (+) SetToBag({Head(jin[NJ + 1])})
            /\ jin' = [jin EXCEPT ![NJ + 1] = Tail(@)]
            /\ UNCHANGED <<inch, inClosed, body, bodyClosed, jinClosed, qin, qinClosed, qslice, qflag, qout, qoutClosed, qv,
                           up, fwd, mpc, mi, inputs, closeList, jumperFound, mmsg, curID, returnCount, signalActive, signalOutdated,
                           bpc, bmsg, bleft, jpc, jmsg, qipc, qopc, sinkDone>>
SinkEnd == /\ ~sinkDone /\ jin[NJ + 1] = <<>> /\ jinClosed[NJ + 1] /\ sinkDone' = TRUE
           /\ UNCHANGED <<inch, inClosed, body, bodyClosed, jin, jinClosed, qin, qinClosed, qslice, qflag, qout, qoutClosed, qv,
                          up, fwd, mpc, mi, inputs, closeList, jumperFound, mmsg, curID, returnCount, signalActive, signalOutdated,
                          bpc, bmsg, bleft, jpc, jmsg, qipc, qopc, got>>

MarkNext == MarkPoll \/ MarkSend \/ MarkRemove \/ MarkIn \/ MarkDecide
Next == \/ UpSend \/ UpClose \/ MarkNext \/ BodyRecv \/ BodySend \/ BodyEnd \/ SinkTake \/ SinkEnd
        \/ \E k \in Queues : FwdSend(k) \/ FwdClose(k) \/ QInTake(k) \/ QInEnd(k) \/ QOutPop(k) \/ QOutSend(k) \/ QOutEnd(k)
        \/ \E j \in Jumps : JumpRecv(j) \/ JumpJump(j) \/ JumpOut(j) \/ JumpEnd(j)

Fairness == /\ WF_vars(UpSend \/ UpClose) /\ WF_vars(MarkNext) /\ WF_vars(BodyRecv \/ BodySend \/ BodyEnd)
            /\ WF_vars(SinkTake \/ SinkEnd)
            /\ \A k \in Queues : WF_vars(FwdSend(k) \/ FwdClose(k)) /\ WF_vars(QInTake(k) \/ QInEnd(k))
                                 /\ WF_vars(QOutPop(k) \/ QOutSend(k) \/ QOutEnd(k))
            /\ \A j \in Jumps : WF_vars(JumpRecv(j) \/ JumpJump(j) \/ JumpOut(j) \/ JumpEnd(j))
Spec == Init /\ [][Next]_vars /\ Fairness

------------------------------------------------------------------------
(* the iterative definition of the result (what the sink must have received) *)
\* children of initial traveler i on its first pass through the body
FirstPass(i) == {i * 10 + n : n \in 0..(Fan - 1)}
Starts == (1..N) \cup {100 * k + n : k \in 1..NF, n \in 1..FT}
\* every arrival of (id, c) at the first jump is emitted once at the sink; each jump that sends it
\* back causes one more arrival of (id, c + 1)
RECURSIVE EmitBag(_, _)
EmitBag(id, c) ==
  LET jumps1 == NJ = 2 /\ Cond(1, Trav(id, c))
      jumpsL == Cond(NJ, Trav(id, c))
  IN SetToBag({Trav(id, c)}) (+) (IF jumps1 THEN EmitBag(id, c + 1) ELSE EmptyBag)
                             (+) (IF jumpsL THEN EmitBag(id, c + 1) ELSE EmptyBag)
ExpectedBag == LET firsts == UNION {FirstPass(i) : i \in Starts}
                   f[S \in SUBSET firsts] == IF S = {} THEN EmptyBag
                                             ELSE LET x == CHOOSE y \in S : TRUE IN EmitBag(x, 1) (+) f[S \ {x}]
               IN f[firsts]

\* printed once per run for the conformance driver
ASSUME PrintT(<<"J", "expected", ToJson({<<x[2], x[3], ExpectedBag[x]>> : x \in DOMAIN ExpectedBag})>>)

------------------------------------------------------------------------
(* properties                                                             *)
NoPanic == mpc # "panic"
NoDup == got \sqsubseteq ExpectedBag
Exact == sinkDone => got = ExpectedBag
TravIn(q) == \E n \in DOMAIN q : ~IsSig(q[n])
CleanClose == mpc = "done" =>
                /\ ~TravIn(inch) /\ ~TravIn(body)
                /\ \A j \in Jumps : ~TravIn(jin[j]) /\ (jmsg[j] # <<>> => IsSig(jmsg[j]))
                /\ \A k \in Queues : ~TravIn(qin[k]) /\ ~TravIn(qslice[k]) /\ ~TravIn(qout[k]) /\ (qv[k] # <<>> => IsSig(qv[k]))
                /\ (bmsg # <<>> => IsSig(bmsg))
OneSignal == Cardinality({k \in Queues : \E n \in DOMAIN qout[k] : IsSig(qout[k][n]) /\ qout[k][n][2] < curID}) >= 0
Termination == <>sinkDone
TypeOK == /\ returnCount \in 0..(NJ + NF) /\ curID \in Nat
=======================================================================
