CONSTANTS
 MaxN = 2
 Family = "edge"
SPECIFICATION Spec
INVARIANT EmitWitnesses
INVARIANT FaithfulWithoutSep
CHECK_DEADLOCK FALSE
