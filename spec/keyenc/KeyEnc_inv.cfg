CONSTANTS
 MaxN = 2
 PairN = 1
 Family = "vertex"
SPECIFICATION Spec
INVARIANT RoundTrip
INVARIANT Injective
INVARIANT PrefixFree
CHECK_DEADLOCK FALSE
