CONSTANTS
 MaxN = 2
 Family = "vertex"
SPECIFICATION Spec
INVARIANT EmitWitnesses
INVARIANT FaithfulWithoutSep
CHECK_DEADLOCK FALSE
