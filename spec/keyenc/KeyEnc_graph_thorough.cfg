CONSTANTS
 MaxN = 3
 PairN = 2
 Family = "graph"
SPECIFICATION Spec
INVARIANT EmitWitnesses
INVARIANT FaithfulWithoutSep
CHECK_DEADLOCK FALSE
