CONSTANTS
 MaxN = 3
 PairN = 2
 Family = "vertex"
SPECIFICATION Spec
INVARIANT EmitWitnesses
INVARIANT FaithfulWithoutSep
CHECK_DEADLOCK FALSE
