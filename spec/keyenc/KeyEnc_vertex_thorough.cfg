CONSTANTS
 MaxN = 3
 PairN = 1
 Family = "vertex"
SPECIFICATION Spec
INVARIANT EmitWitnesses
INVARIANT FaithfulWithoutSep
CHECK_DEADLOCK FALSE
