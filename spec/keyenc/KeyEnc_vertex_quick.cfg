CONSTANTS
 MaxN = 2
 PairN = 1
 Family = "vertex"
SPECIFICATION Spec
INVARIANT EmitWitnesses
INVARIANT FaithfulWithoutSep
CHECK_DEADLOCK FALSE
