---------------------------- MODULE ValueShapes ----------------------------
(* C16: the JSON shapes of property values that are written and read back: *)
(* nesting <= 2, empty list / map, null, booleans, strings (empty, with    *)
(* the separator byte, unicode, long, number-like) and the numeric         *)
(* boundary table.  Numbers and strings are symbolic names that the check  *)
(* driver maps to concrete float64 values / byte strings.  Negative zero   *)
(* is out of scope.  The abstract clause for a value is identity: what     *)
(* GetVertex / V() / render return equals what was written                 *)
(* (KeyEncTrace.tla compares the value tokens).                            *)
EXTENDS Values

Nums == {"0", "1", "-1", "0.5", "-2.5", "2^31", "2^31-1", "-2^31", "2^53-1", "2^53", "2^53+2", "2^63", "-2^63", "1e21", "1e308", "-1e308", "5e-324", "1.7976931348623157e308"}
Strs == {"empty", "a", "sep", "unicode", "long", "numlike", "ctrl"}
Keys == {"k", "dot", "emptykey", "underscore", "sepkey"}
Num(n) == <<"num", n>>
Scalars == {Null, B(TRUE), B(FALSE)} \cup {Num(n) : n \in Nums} \cup {S(x) : x \in Strs}
FewScalars == {Null, B(FALSE), Num("0"), Num("2^53"), S("empty"), S("a")}
Depth1 == {L(<<>>), EmptyMap} \cup {L(<<x>>) : x \in Scalars} \cup {L(<<x, y>>) : x \in FewScalars, y \in FewScalars}
          \cup {M([q \in {k} |-> x]) : k \in Keys, x \in FewScalars}
          \cup {M([q \in {"k", "j"} |-> IF q = "k" THEN x ELSE Null]) : x \in FewScalars}
Rep1 == {L(<<>>), EmptyMap, L(<<Null>>), L(<<Num("1"), S("a")>>), M([q \in {"k"} |-> Null]), M([q \in {"emptykey"} |-> S("empty")])}
Depth2 == {L(<<c>>) : c \in Rep1} \cup {L(<<c, x>>) : c \in Rep1, x \in {Null, Num("1")}}
          \cup {M([q \in {k} |-> c]) : k \in {"k", "dot"}, c \in Rep1}
Shapes == Scalars \cup Depth1 \cup Depth2

VARIABLE v
Init == v \in Shapes
Spec == Init /\ [][UNCHANGED v]_v
EmitValue == Emit("val", v)
=============================================================================
