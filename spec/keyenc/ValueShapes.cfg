SPECIFICATION Spec
INVARIANT EmitValue
CHECK_DEADLOCK FALSE
