SPECIFICATION Spec
INVARIANT EmitVerdict
CHECK_DEADLOCK FALSE
