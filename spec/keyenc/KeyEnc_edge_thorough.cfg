CONSTANTS
 MaxN = 3
 PairN = 2
 Family = "edge"
SPECIFICATION Spec
INVARIANT EmitWitnesses
INVARIANT FaithfulWithoutSep
CHECK_DEADLOCK FALSE
