CONSTANTS
 MaxN = 3
 PairN = 2
 Family = "label"
SPECIFICATION Spec
INVARIANT EmitWitnesses
INVARIANT FaithfulWithoutSep
CHECK_DEADLOCK FALSE
