---------------------------- MODULE KeyEncTrace ----------------------------
(* C16, abstract (property-level) clause and its trace validation.         *)
(*                                                                         *)
(* The property: whatever a write call ACCEPTS is stored verbatim - it can *)
(* be read back identical through lookup, listing, adjacency, label        *)
(* listings and traversal, addresses only that element and changes no      *)
(* other element or graph - and whatever it REFUSES leaves everything      *)
(* unchanged.  Acceptance itself is the implementation's choice, so the    *)
(* oracle is the abstract graph store of spec/store/GraphStore.tla driven  *)
(* by the recorded calls WITH their recorded results: an accepted call has *)
(* its GraphStore effect, a refused call has none.  Identifiers and values *)
(* are opaque tokens here (the harness and the check driver map them to    *)
(* and from the real byte strings): the abstract store needs nothing but   *)
(* their identity.                                                         *)
(*                                                                         *)
(* Each line of traces.ndjson is one history recorded by harness/keyenc on *)
(* the real kvgraph: the calls with results, and everything read back      *)
(* afterwards.  TLC computes the abstract state, derives what every        *)
(* observation must be, and prints one verdict per history with the        *)
(* aspects that differ.                                                    *)
EXTENDS Integers, Sequences, FiniteSets, TLC, Json, SequencesExt

Emit2(tag, obj) == PrintT(<<"J", tag, ToJson(obj)>>)

Traces == ndJsonDeserialize("traces.ndjson")

VARIABLE k
Init == k \in 1..Len(Traces)
Spec == Init /\ [][UNCHANGED k]_k

ToSetOf(q) == {q[i] : i \in DOMAIN q}

----------------------------------------------------------------------------
(* the abstract store (GraphStore.tla): graph name -> [V, E]               *)
EmptyG == [V |-> <<>>, E |-> <<>>]
PutV(G, c) == [G EXCEPT !.V = [i \in DOMAIN G.V \cup {c.id} |->
                  IF i = c.id THEN [label |-> c.label, data |-> c.data, props |-> c.props] ELSE G.V[i]]]
PutE(G, c) == [G EXCEPT !.E = [i \in DOMAIN G.E \cup {c.id} |->
                  IF i = c.id THEN [label |-> c.label, from |-> c.from, to |-> c.to, data |-> c.data] ELSE G.E[i]]]
DropV(G, id) == [V |-> [i \in DOMAIN G.V \ {id} |-> G.V[i]],
                 E |-> [i \in {j \in DOMAIN G.E : G.E[j].from # id /\ G.E[j].to # id} |-> G.E[i]]]
DropE(G, id) == [G EXCEPT !.E = [i \in DOMAIN G.E \ {id} |-> G.E[i]]]
SetG(s, g, G) == [n \in DOMAIN s \cup {g} |-> IF n = g THEN G ELSE s[n]]
DelG(s, g)    == [n \in DOMAIN s \ {g} |-> s[n]]

\* the effect of one recorded call: accepted -> GraphStore effect, refused -> none.
\* st = [s |-> store, odd |-> set of anomalies that need no observation to be seen]
Eff(st, c) ==
  LET s == st.s IN
  IF c.res # "ok" THEN st
  ELSE CASE c.op = "AddGraph"    -> [st EXCEPT !.s = IF c.g \in DOMAIN s THEN s ELSE SetG(s, c.g, EmptyG)]
         [] c.op = "DeleteGraph" -> [st EXCEPT !.s = DelG(s, c.g)]
         [] c.g \notin DOMAIN s  -> [st EXCEPT !.odd = @ \cup {"write accepted for a graph that does not exist"}]
         [] c.op = "AddVertex"   -> [st EXCEPT !.s = SetG(s, c.g, PutV(s[c.g], c))]
         [] c.op = "AddEdge"     -> [st EXCEPT !.s = SetG(s, c.g, PutE(s[c.g], c))]
         [] c.op = "DelVertex"   -> [st EXCEPT !.s = IF c.id \in DOMAIN s[c.g].V THEN SetG(s, c.g, DropV(s[c.g], c.id)) ELSE s]
         [] c.op = "DelEdge"     -> [st EXCEPT !.s = IF c.id \in DOMAIN s[c.g].E THEN SetG(s, c.g, DropE(s[c.g], c.id)) ELSE s]
Final(tr) == FoldLeft(Eff, [s |-> <<>>, odd |-> {}], tr.calls)

----------------------------------------------------------------------------
(* what every observation must be, as sets of tuples in the layout the     *)
(* harness reports                                                         *)
Expected(G, tr) ==
  LET V == G.V  E == G.E  vids == ToSetOf(tr.vids)  eids == ToSetOf(tr.eids)  labels == ToSetOf(tr.labels) IN
  [V    |-> {<<i, V[i].label, V[i].data>> : i \in DOMAIN V},
   E    |-> {<<i, E[i].label, E[i].from, E[i].to, E[i].data>> : i \in DOMAIN E},
   getV |-> {<<i, i, V[i].label, V[i].data>> : i \in vids \cap DOMAIN V},
   getE |-> {<<i, i, E[i].label, E[i].from, E[i].to, E[i].data>> : i \in eids \cap DOMAIN E},
   vlabels |-> {V[i].label : i \in DOMAIN V},
   elabels |-> {E[i].label : i \in DOMAIN E},
   byLabel |-> {<<V[i].label, i>> : i \in {j \in DOMAIN V : V[j].label \in labels}},
   hasLabel |-> {<<V[i].label, i, V[i].label>> : i \in {j \in DOMAIN V : V[j].label \in labels}},
   outE |-> {<<E[i].from, i, E[i].label, E[i].from, E[i].to>> : i \in {j \in DOMAIN E : E[j].from \in vids}},
   inE  |-> {<<E[i].to, i, E[i].label, E[i].from, E[i].to>> : i \in {j \in DOMAIN E : E[j].to \in vids}},
   \* neighbours, one entry per traversed edge whose far end exists (the edge id keeps parallel edges apart)
   nout |-> {<<i, E[i].from, E[i].to, V[E[i].to].label>> : i \in {j \in DOMAIN E : E[j].from \in vids /\ E[j].to \in DOMAIN V}},
   nin  |-> {<<i, E[i].to, E[i].from, V[E[i].from].label>> : i \in {j \in DOMAIN E : E[j].to \in vids /\ E[j].from \in DOMAIN V}},
   render |-> {<<r[1], r[2], V[r[1]].props[r[2]]>> : r \in {q \in ToSetOf(tr.render) : q[1] \in DOMAIN V /\ q[2] \in DOMAIN V[q[1]].props}}]

SetKinds == {"V", "E", "getV", "getE", "vlabels", "elabels", "byLabel", "hasLabel", "outE", "inE", "render"}
\* neighbour lists carry no edge id: compared as bags of <<from-probe, neighbour id, neighbour label>>
NbrBag(exp) == [x \in {<<e[2], e[3], e[4]>> : e \in exp} |-> Cardinality({e \in exp : <<e[2], e[3], e[4]>> = x})]
ObsBag(q)   == [x \in ToSetOf(q) |-> Cardinality({i \in DOMAIN q : q[i] = x})]

Diff(kind, exp, got) ==
  LET g == ToSetOf(got) IN
  (IF g \ exp # {} THEN {kind \o "-extra"} ELSE {})
  \cup (IF exp \ g # {} THEN {kind \o "-missing"} ELSE {})
  \cup (IF g = exp /\ Len(got) # Cardinality(exp) THEN {kind \o "-duplicates"} ELSE {})

GraphAspects(tr, S, og) ==
  IF (og.g \in DOMAIN S) # og.exists THEN {IF og.exists THEN "graph-exists-unexpectedly" ELSE "graph-missing"}
  ELSE IF ~og.exists THEN {}
  ELSE IF "panic" \in DOMAIN og.obs THEN {"panic while reading"}
  ELSE LET exp == Expected(S[og.g], tr) IN
       UNION {Diff(kd, exp[kd], og.obs[kd]) : kd \in SetKinds}
       \cup (IF NbrBag(exp.nout) # ObsBag(og.obs.nout) THEN {"out-neighbours"} ELSE {})
       \cup (IF NbrBag(exp.nin) # ObsBag(og.obs.nin) THEN {"in-neighbours"} ELSE {})

Aspects(tr) ==
  LET fin == Final(tr)  S == fin.s IN
  fin.odd
  \cup (IF ToSetOf(tr.obs.listed) # DOMAIN S THEN {IF ToSetOf(tr.obs.listed) \ DOMAIN S # {} THEN "graph-list-extra" ELSE "graph-list-missing"} ELSE {})
  \cup UNION {{og.g \o ":" \o a : a \in GraphAspects(tr, S, og)} : og \in ToSetOf(tr.obs.graphs)}

EmitVerdict == Emit2("verdict", [i |-> Traces[k].i, aspects |-> Aspects(Traces[k])])
=============================================================================
