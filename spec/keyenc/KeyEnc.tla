------------------------------ MODULE KeyEnc ------------------------------
(* C16, implementation-shaped: the composite keys of kvgraph/keys.go and   *)
(* kvindex/keys.go.  Strings are sequences over a byte-class alphabet      *)
(*   SEP (0x00, the separator), a, b, DOT ('.'), BAR ('|'),                 *)
(*   E1 (0x01, the edge-type byte / the string term-type byte), FF (0xff)  *)
(* plus the words the code uses internally (label, v, e, __schema__,       *)
(* __mapping__), which occur as whole strings or as a suffix.  A key is    *)
(* Join over SEP of a family marker and its components; the *Parse         *)
(* functions are Split on SEP followed by indexing, exactly as in the      *)
(* code; the index document of an element is the map {"label": L, L: data}.*)
(*                                                                         *)
(* "Accepted" transcribes gripql/util.go: validate (graph and field        *)
(* names: none of the listed punctuation, which includes '.' and '|', no   *)
(* leading '_' or '-'; the EMPTY name passes), Vertex.Validate (gid and    *)
(* label not blank), Edge.Validate (gid, label, from, to not blank).       *)
(* Nothing forbids 0x00.                                                   *)
(*                                                                         *)
(* For every accepted tuple TLC evaluates                                  *)
(*   RoundTrip    Parse(Key(t)) = t                                        *)
(*   Injective    no other accepted tuple has the same key                 *)
(*   PrefixFree   the scan prefix of no other graph / element / vertex /   *)
(*                label matches the key of t                               *)
(*   NoDocCollision  the two keys of the index document differ; the        *)
(*                document id is not shared                                *)
(* Two tuples can only share a key, or one's prefix match the other's key, *)
(* if one is a regrouping of the SEP-separated parts of the other, so each *)
(* property is decided per tuple from the regroupings of its key.  Every   *)
(* failure is printed as a witness (EmitWitnesses) - a PREDICTION that     *)
(* harness/keyenc replays on the real store; the invariants proper are     *)
(* checked by the *_inv configuration (expected to be violated on the      *)
(* pinned encoding).                                                       *)
EXTENDS Values, SequencesExt

CONSTANTS MaxN,     \* longest string varied freely
          PairN,    \* longest string where two components of an edge / label entry vary together
          Family    \* which tuple family this run explores: "vertex" | "edge" | "label" | "graph"

Bytes == {"SEP", "a", "b", "DOT", "BAR", "E1", "FF"}
MetaSuffixes == {"__schema__", "__mapping__"}
Words == {"label", "v", "e"} \cup MetaSuffixes

StrUpTo(n) == UNION {[1..k -> Bytes] : k \in 0..n}
WordStrs == {<<w>> : w \in Words} \cup {<<"a", w>> : w \in MetaSuffixes}
Str(n) == StrUpTo(n) \cup WordStrs

----------------------------------------------------------------------------
(* validation, transcribed                                                 *)
ForbiddenInNames == {"DOT", "BAR"}
ValidateName(s) == /\ \A i \in DOMAIN s : s[i] \notin ForbiddenInNames
                   /\ (s # <<>> => s[1] \notin MetaSuffixes)          \* leading '_'
AccGraph(g) == ValidateName(g)
AccVertex(id, l) == id # <<>> /\ l # <<>>
AccEdge(id, l, f, t) == id # <<>> /\ l # <<>> /\ f # <<>> /\ t # <<>>

----------------------------------------------------------------------------
(* keys                                                                    *)
SEP == <<"SEP">>
JoinSeq(parts) == FoldLeft(LAMBDA acc, p : IF acc = <<"#none">> THEN p ELSE acc \o SEP \o p, <<"#none">>, parts)
Fam(x) == <<"F:" \o x>>
\* Split on SEP: the sequence of maximal SEP-free pieces (possibly empty)
Split(s) == FoldLeft(LAMBDA acc, x : IF x = "SEP" THEN Append(acc, <<>>)
                                      ELSE SubSeq(acc, 1, Len(acc) - 1) \o << Append(acc[Len(acc)], x) >>,
                     << <<>> >>, s)

GraphKey(g)                == JoinSeq(<<Fam("g"), g>>)
VertexKey(g, id)           == JoinSeq(<<Fam("v"), g, id>>)
VertexListPrefix(g)        == JoinSeq(<<Fam("v"), g, <<>> >>)
EdgeKey(g, id, s, d, l)    == JoinSeq(<<Fam("e"), g, id, s, d, l, <<"E1">> >>)
EdgeKeyPrefix(g, id)       == JoinSeq(<<Fam("e"), g, id, <<>> >>)
EdgeListPrefix(g)          == JoinSeq(<<Fam("e"), g, <<>> >>)
SrcEdgeKey(g, s, d, id, l) == JoinSeq(<<Fam("s"), g, s, d, id, l, <<"E1">> >>)
DstEdgeKey(g, s, d, id, l) == JoinSeq(<<Fam("d"), g, d, s, id, l, <<"E1">> >>)
SrcEdgePrefix(g, v)        == JoinSeq(<<Fam("s"), g, v, <<>> >>)
DstEdgePrefix(g, v)        == JoinSeq(<<Fam("d"), g, v, <<>> >>)
LabelField(g, kind)        == g \o <<"DOT", kind, "DOT", "label">>
FieldKey(field)            == JoinSeq(<<Fam("f"), field>>)
TermKey(field, term)       == JoinSeq(<<Fam("t"), field, <<"E1">>, term>>)
EntryKey(field, term, doc) == JoinSeq(<<Fam("i"), field, <<"E1">>, term, doc>>)
EntryValuePrefix(field, term) == JoinSeq(<<Fam("i"), field, <<"E1">>, term, <<>> >>)
DocKey(doc)                == JoinSeq(<<Fam("D"), doc>>)

\* parses (1-based: tmp[1] is the family marker); PANIC where the code would index out of range
PANIC == [panic |-> <<"PANIC">>]
GraphKeyParse(k)  == LET t == Split(k) IN t[2]
VertexKeyParse(k) == LET t == Split(k) IN [g |-> t[2], id |-> t[3]]
EdgeKeyParse(k)   == LET t == Split(k) IN
                       IF Len(t) < 7 \/ t[7] = <<>> THEN PANIC
                       ELSE [g |-> t[2], id |-> t[3], s |-> t[4], d |-> t[5], l |-> t[6]]
SrcEdgeKeyParse(k) == LET t == Split(k) IN
                       IF Len(t) < 7 \/ t[7] = <<>> THEN PANIC
                       ELSE [g |-> t[2], s |-> t[3], d |-> t[4], id |-> t[5], l |-> t[6]]
DstEdgeKeyParse(k) == LET t == Split(k) IN
                       IF Len(t) < 7 \/ t[7] = <<>> THEN PANIC
                       ELSE [g |-> t[2], d |-> t[3], s |-> t[4], id |-> t[5], l |-> t[6]]
\* EntryKeyParse: SplitN(key, 4) then Split of the rest: term = first piece, doc = second
EntryKeyParse(k)  == LET t == Split(k) IN
                       IF Len(t) < 5 THEN PANIC ELSE [term |-> t[4], doc |-> t[5]]

----------------------------------------------------------------------------
(* regroupings: all ways to cut the parts of a key into n consecutive      *)
(* groups, each group joined by SEP again                                  *)
Cuts(m, n) == IF n = 1 THEN {<<>>}
              ELSE {c \in [1..(n - 1) -> 1..(m - 1)] : \A i \in 1..(n - 2) : c[i] < c[i + 1]}
Group(parts, c, j, n) == LET lo == IF j = 1 THEN 1 ELSE c[j - 1] + 1
                             hi == IF j = n THEN Len(parts) ELSE c[j]
                         IN JoinSeq(SubSeq(parts, lo, hi))
Regroup(parts, n) == IF Len(parts) < n THEN {} ELSE {[j \in 1..n |-> Group(parts, c, j, n)] : c \in Cuts(Len(parts), n)}
PartsOf(comps) == Split(JoinSeq(comps))
\* leading groups only (for prefixes): the first n groups of a regrouping into n + 1
Leading(parts, n) == {SubSeq(r, 1, n) : r \in Regroup(parts, n + 1)}

----------------------------------------------------------------------------
VARIABLES t
Plain == <<"a">>
Small == Str(PairN)

VertexTuples(z) == {[g |-> g, id |-> id, l |-> Plain] : g \in {x \in Str(IF MaxN > 2 THEN 2 ELSE MaxN) : AccGraph(x)}, id \in Str(MaxN) \ {<<>>}}
EdgePairs(z) ==
  LET C == <<"g", "id", "s", "d", "l">>
      Rec(i, x, j, y) == [c \in {"g", "id", "s", "d", "l"} |-> IF c = C[i] THEN x ELSE IF c = C[j] THEN y ELSE Plain]
  IN UNION {{Rec(p[1], x, p[2], y) : x \in Small, y \in Small} : p \in {q \in (1..5) \X (1..5) : q[1] < q[2]}}
     \cup UNION {{Rec(k, x, k, x) : x \in Str(MaxN)} : k \in 1..5}
EdgeTuples(z) == {e \in EdgePairs(0) : AccGraph(e.g) /\ AccEdge(e.id, e.l, e.s, e.d)}
LabelTuples(z) == {[g |-> g, kind |-> k, l |-> l, id |-> id] : g \in {<<"a">>, <<"b">>}, k \in {"v", "e"}, l \in Str(MaxN) \ {<<>>}, id \in Small \ {<<>>}}
GraphTuples(z) == {[g |-> g] : g \in {x \in Str(MaxN + 1) : AccGraph(x)}}

Tuples == CASE Family = "vertex" -> VertexTuples(0) [] Family = "edge" -> EdgeTuples(0)
            [] Family = "label" -> LabelTuples(0) [] Family = "graph" -> GraphTuples(0)

Init == t \in Tuples
Spec == Init /\ [][UNCHANGED t]_t

----------------------------------------------------------------------------
(* per-family failures: a set of witness records                           *)
W(prop, what, other) == [family |-> Family, prop |-> prop, what |-> what, t |-> t, other |-> other]

GraphFailures ==
  {W("RoundTrip", "ListGraphs parses another name", [g |-> GraphKeyParse(GraphKey(t.g))]) : x \in {1} \cap (IF GraphKeyParse(GraphKey(t.g)) # t.g THEN {1} ELSE {})}

VertexFailures ==
  LET key == VertexKey(t.g, t.id)
      parts == PartsOf(<<t.g, t.id>>)
      rt == VertexKeyParse(key)
  IN {W("RoundTrip", "vertex listing parses another graph/id", rt) : x \in IF rt.g # t.g \/ rt.id # t.id THEN {1} ELSE {}}
     \cup {W("Injective", "another graph/vertex has the same key", [g |-> r[1], id |-> r[2]]) :
             r \in {q \in Regroup(parts, 2) : (q[1] # t.g \/ q[2] # t.id) /\ AccGraph(q[1]) /\ q[2] # <<>>}}
     \cup {W("PrefixFree", "the vertex list prefix of another graph matches this key", [g |-> r[1]]) :
             r \in {q \in Leading(parts, 1) : q[1] # t.g /\ AccGraph(q[1])}}

EdgeFailures ==
  LET key == EdgeKey(t.g, t.id, t.s, t.d, t.l)
      parts == PartsOf(<<t.g, t.id, t.s, t.d, t.l>>)
      rt == EdgeKeyParse(key)
      srt == SrcEdgeKeyParse(SrcEdgeKey(t.g, t.s, t.d, t.id, t.l))
      sparts == PartsOf(<<t.g, t.s, t.d, t.id, t.l>>)
      dparts == PartsOf(<<t.g, t.d, t.s, t.id, t.l>>)
      same(r) == r.g = t.g /\ r.id = t.id /\ r.s = t.s /\ r.d = t.d /\ r.l = t.l
  IN {W("RoundTrip", IF rt = PANIC THEN "EdgeKeyParse indexes an empty edge-type field" ELSE "edge listing parses other components", rt) :
        x \in IF rt = PANIC THEN {1} ELSE IF same(rt) THEN {} ELSE {1}}
     \cup {W("RoundTrip", IF srt = PANIC THEN "SrcEdgeKeyParse indexes an empty edge-type field" ELSE "adjacency scan parses other components", srt) :
        x \in IF srt = PANIC THEN {1} ELSE IF same(srt) THEN {} ELSE {1}}
     \cup {W("Injective", "another edge has the same key", [g |-> r[1], id |-> r[2], s |-> r[3], d |-> r[4], l |-> r[5]]) :
             r \in {q \in Regroup(parts, 5) : ~(q[1] = t.g /\ q[2] = t.id /\ q[3] = t.s /\ q[4] = t.d /\ q[5] = t.l)
                                              /\ AccGraph(q[1]) /\ AccEdge(q[2], q[5], q[3], q[4])}}
     \cup {W("PrefixFree", "the edge-key prefix of another graph/edge id matches this key", [g |-> r[1], id |-> r[2]]) :
             r \in {q \in Leading(parts, 2) : (q[1] # t.g \/ q[2] # t.id) /\ AccGraph(q[1]) /\ q[2] # <<>>}}
     \cup {W("PrefixFree", "the out-edge prefix of another graph/vertex matches this adjacency key", [g |-> r[1], v |-> r[2]]) :
             r \in {q \in Leading(sparts, 2) : (q[1] # t.g \/ q[2] # t.s) /\ AccGraph(q[1]) /\ q[2] # <<>>}}
     \cup {W("PrefixFree", "the in-edge prefix of another graph/vertex matches this adjacency key", [g |-> r[1], v |-> r[2]]) :
             r \in {q \in Leading(dparts, 2) : (q[1] # t.g \/ q[2] # t.d) /\ AccGraph(q[1]) /\ q[2] # <<>>}}

LabelFailures ==
  LET field == LabelField(t.g, t.kind)
      key == EntryKey(field, t.l, t.id)
      parts == PartsOf(<<t.l, t.id>>)
      rt == EntryKeyParse(key)
  IN {W("RoundTrip", "label scan parses another term/document id", rt) : x \in IF rt = PANIC \/ rt.term # t.l \/ rt.doc # t.id THEN {1} ELSE {}}
     \cup {W("Injective", "another label/id has the same index entry", [l |-> r[1], id |-> r[2]]) :
             r \in {q \in Regroup(parts, 2) : (q[1] # t.l \/ q[2] # t.id) /\ q[1] # <<>> /\ q[2] # <<>>}}
     \cup {W("PrefixFree", "the entry prefix of another label matches this entry", [l |-> r[1]]) :
             r \in {q \in Leading(parts, 1) : q[1] # t.l /\ q[1] # <<>>}}
     \cup {W("NoDocCollision", "the label equals the literal key \"label\" of the index document", [l |-> t.l]) : x \in IF t.l = <<"label">> THEN {1} ELSE {}}
     \cup {W("NoDocCollision", "the document key is shared by every graph and by vertices and edges with this id", [doc |-> DocKey(t.id)]) :
             x \in IF t.g = <<"a">> /\ t.kind = "v" /\ t.l = Plain THEN {1} ELSE {}}

Failures == CASE Family = "vertex" -> VertexFailures [] Family = "edge" -> EdgeFailures
              [] Family = "label" -> LabelFailures [] Family = "graph" -> GraphFailures

HasSep(s) == \E i \in DOMAIN s : s[i] \in {"SEP", "PANIC"}
HasSepRec(r) == \E f \in DOMAIN r : f # "kind" /\ HasSep(r[f])
\* the invariants proper
RoundTrip      == \A w \in Failures : w.prop # "RoundTrip"
Injective      == \A w \in Failures : w.prop # "Injective"
PrefixFree     == \A w \in Failures : w.prop # "PrefixFree"
NoDocCollision == \A w \in Failures : w.prop # "NoDocCollision"
\* never violated: prints the witnesses
\* (a witness whose separator is only in the OTHER tuple exists for every tuple: printed for short tuples only)
AllShort(r) == \A f \in DOMAIN r : f = "kind" \/ Len(r[f]) <= 1
EmitWitnesses == \A w \in Failures : (HasSepRec(w.t) \/ AllShort(w.t)) => Emit("w", w)
\* sanity of the model: without the separator byte in any component the key encoding is faithful
FaithfulWithoutSep == \A w \in Failures : w.prop = "NoDocCollision" \/ HasSepRec(w.t) \/ HasSepRec(w.other)
=============================================================================
