CONSTANTS
 MaxN = 2
 PairN = 1
 Family = "label"
SPECIFICATION Spec
INVARIANT EmitWitnesses
INVARIANT FaithfulWithoutSep
CHECK_DEADLOCK FALSE
