CONSTANT Depth = 1
INIT Init
NEXT Next
INVARIANT EmitCase
CHECK_DEADLOCK FALSE
