CONSTANT MaxLen = 3
CONSTANT Alpha = "full"
INIT Init
NEXT Next
INVARIANT TypeInv
INVARIANT EmitProg
CHECK_DEADLOCK FALSE
