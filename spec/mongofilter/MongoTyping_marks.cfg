CONSTANT MaxLen = 4
CONSTANT Alpha = "marks"
INIT Init
NEXT Next
INVARIANT TypeInv
INVARIANT EmitProg
CHECK_DEADLOCK FALSE
