CONSTANT Block = 64
INIT Init
NEXT Next
INVARIANT EmitResult
CHECK_DEADLOCK FALSE
