---------------------------- MODULE MongoGrid ----------------------------
(* C14, filter half, generation: the grid of has() expressions (the C08   *)
(* grid: every operator x argument, ternary and/or, all and/or/not        *)
(* nestings to Depth over a 6-condition basis) over scalar field values,  *)
(* with the documents HasSem keeps.  The real compiler translates each    *)
(* expression; MongoEval.tla then evaluates the emitted filter documents. *)
EXTENDS HasSem

CONSTANT Depth   \* 1 or 2

DocVals == << MISSING, Null, B(TRUE), B(FALSE), N(-1), N(0), N(1), N(2), S("1"), S("a"), S("") >>
DocIds == DOMAIN DocVals
\* abstract graph elements: id, label and one property x
Docs == [i \in DocIds |-> [id    |-> S(IF i % 2 = 1 THEN "a" ELSE "b"),
                           label |-> S(IF i % 3 = 0 THEN "L2" ELSE "L1"),
                           x     |-> DocVals[i]]]
Look(doc, key) == CASE key = "x" -> doc.x [] key = "_gid" -> doc.id [] key = "_label" -> doc.label

Args == { Null, B(TRUE), B(FALSE), N(-1), N(0), N(1), N(2), S("1"), S("a"), S(""),
          L(<<>>), L(<<N(1)>>), L(<<N(0), N(1)>>), L(<<N(1), N(1)>>), L(<<N(1), N(0)>>),
          L(<<N(0), N(2)>>), L(<<S("0"), S("2")>>), L(<<S("a"), S("1")>>), L(<<N(1), S("a")>>),
          L(<<N(0), N(1), N(2)>>), L(<<L(<<N(1)>>)>>), L(<<N(0), S("a")>>), L(<<Null, N(1)>>),
          L(<<B(TRUE)>>), M([k |-> N(1)]) }
GridConds == { Cond(op, a) : op \in Ops, a \in Args }

\* conditions on the reserved keys (the field-path mapping of the translator)
KeyArgs == { S("a"), S("L1"), L(<<S("a"), S("L2")>>), L(<<S("b")>>), L(<<>>) }
KeyConds == { Cond(op, a) : op \in {"eq", "neq", "within", "without"}, a \in KeyArgs }

Basis == { Cond("eq", N(1)), Cond("gt", N(0)), Cond("lt", N(2)), Cond("within", L(<<S("a"), S("1")>>)),
           Cond("neq", S("a")), Cond("contains", N(1)) }
Lift(E) == E \cup { Not(x) : x \in E }
               \cup { And(<<x, y>>) : x \in E, y \in E }
               \cup { Or(<<x, y>>) : x \in E, y \in E }
E1 == Lift(Basis)
Tern == { And(<<a, b, c>>) : a \in Basis, b \in Basis, c \in Basis }
        \cup { Or(<<a, b, c>>) : a \in Basis, b \in Basis, c \in Basis }
        \cup { And(<<>>), Or(<<>>), Not(And(<<>>)), Not(Or(<<>>)), And(<<Cond("eq", N(1))>>), Or(<<Cond("eq", N(1))>>) }
\* negation and nesting around the operators that the translator rewrites
Rewr == { Not(Cond(op, a)) : op \in {"inside", "outside", "between", "without", "neq", "contains"},
                             a \in {L(<<N(0), N(2)>>), L(<<N(1)>>), N(1), L(<<N(1), S("a")>>)} }
        \cup { Not(Not(x)) : x \in Basis }

VARIABLES e, key, stage
Init == \/ (stage = 1 /\ key = "x" /\ e \in GridConds \cup Tern \cup E1 \cup Rewr)
        \/ (stage = 1 /\ key \in {"_gid", "_label"} /\ e \in KeyConds \cup { Not(x) : x \in KeyConds })
        \/ (Depth >= 2 /\ stage = 0 /\ key = "x" /\ e \in E1)
Next == /\ stage = 0
        /\ stage' = 1 /\ key' = key
        /\ e' \in {Not(e)} \cup { And(<<e, y>>) : y \in E1 } \cup { Or(<<e, y>>) : y \in E1 }

Keep(x, k)  == { d \in DocIds : HasSem(x, Look(Docs[d], k)) }
OpenD(x, k) == { d \in DocIds : HasOpen(x, Look(Docs[d], k)) }

EmitCase == stage = 1 => Emit("case", [e |-> e, key |-> key, keep |-> Keep(e, key), open |-> OpenD(e, key)])
ASSUME Emit("docs", Docs)
==========================================================================
