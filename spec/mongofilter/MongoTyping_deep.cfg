CONSTANT MaxLen = 4
CONSTANT Alpha = "core"
INIT Init
NEXT Next
INVARIANT TypeInv
INVARIANT EmitProg
CHECK_DEADLOCK FALSE
