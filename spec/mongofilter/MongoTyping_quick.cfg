CONSTANT MaxLen = 2
CONSTANT Alpha = "full"
INIT Init
NEXT Next
INVARIANT TypeInv
INVARIANT EmitProg
CHECK_DEADLOCK FALSE
