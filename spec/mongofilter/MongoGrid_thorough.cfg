CONSTANT Depth = 2
INIT Init
NEXT Next
INVARIANT EmitCase
CHECK_DEADLOCK FALSE
