---------------------------- MODULE MongoEval ----------------------------
(* C14, filter half, decision: the filter documents the REAL Mongo         *)
(* compiler emitted (c14_cases.ndjson, one line per expression of the      *)
(* MongoGrid grid: the expression, its key, the normalised $match document *)
(* of V().has(e), and the expression with every leaf condition replaced by *)
(* the filter document emitted for that leaf alone) are evaluated with     *)
(* MongoSem on the Mongo documents the real PackVertex produced for the    *)
(* abstract documents (c14_docs.ndjson), and compared with HasSem.         *)
EXTENDS MongoFilter

Cases == ndJsonDeserialize("c14_cases.ndjson")
DocsIn == ndJsonDeserialize("c14_docs.ndjson")[1]
ADocs == DocsIn.docs      \* abstract documents [id, label, x]
MDocs == DocsIn.mdocs     \* the Mongo documents, path -> value
DocIds == DOMAIN ADocs
Look(doc, key) == CASE key = "x" -> doc.x [] key = "_gid" -> doc.id [] key = "_label" -> doc.label

CONSTANT Block   \* cases are spread over blocks so that TLC's workers share them
VARIABLES blk, i
Init == blk \in 0..(Len(Cases) \div Block) /\ i = 0
Next == /\ i = 0
        /\ i' \in { n \in 1..Len(Cases) : n \div Block = blk }
        /\ blk' = blk

Result(c) ==
  [i    |-> c.i,
   hs   |-> { d \in DocIds : HasSem(c.e, Look(ADocs[d], c.key)) },
   open |-> { d \in DocIds : HasOpen(c.e, Look(ADocs[d], c.key)) },
   prob |-> Problems(c.f),
   mprob |-> MixProblems(c.mix),
   ms   |-> IF Problems(c.f) = {} THEN { d \in DocIds : MongoSem(c.f, MDocs[d]) } ELSE {},
   alg  |-> IF MixProblems(c.mix) = {} THEN { d \in DocIds : MixSem(c.mix, MDocs[d]) } ELSE {},
   lb   |-> UNION { { [op |-> b.op, arg |-> b.arg, got |-> b.got, d |-> d]
                      : b \in LeafBad(c.e, c.mix, Look(ADocs[d], c.key), MDocs[d]) } : d \in DocIds }]

EmitResult == i > 0 => Emit("r", Result(Cases[i]))
==========================================================================
