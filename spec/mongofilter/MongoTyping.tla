--------------------------- MODULE MongoTyping ---------------------------
(* C14, typing half: the documented typing judgement of GripQL statement  *)
(* sequences (the TypeOK / NewTy / mt part of Traversal.tla, copied here  *)
(* without the row semantics) over the statements the Mongo compiler      *)
(* supports, with marks defined before use.  TLC enumerates every program *)
(* over the alphabet up to MaxLen statements after the first one and      *)
(* prints (program, accepted/rejected, result type, mark types); the Mongo *)
(* compiler and the core compiler must both agree with it.                *)
(* A program ends at its first ill-typed statement (error before any row).*)
EXTENDS HasSem

CONSTANTS MaxLen,   \* statements after the first one
          Alpha     \* "full" | "core": which alphabet is explored

St(op)        == [op |-> op]
Mov(op, ls)   == [op |-> op, labels |-> ls]
StartS(op, ids) == [op |-> op, ids |-> ids]
HasS(x)       == [op |-> "has", e |-> x]
HasLabelS(ls) == [op |-> "hasLabel", labels |-> ls]
HasIdS(ids)   == [op |-> "hasId", ids |-> ids]
HasKeyS(ks)   == [op |-> "hasKey", keys |-> ks]
AsS(n)        == [op |-> "as", name |-> n]
SelS(ms)      == [op |-> "select", marks |-> ms]
FieldsS(fs)   == [op |-> "fields", fields |-> fs]
RenderS(t)    == [op |-> "render", tpl |-> t]
UnwindS(f)    == [op |-> "unwind", field |-> f]
DistS(fs)     == [op |-> "distinct", fields |-> fs]
LimS(n)       == [op |-> "limit", n |-> n]
SkipS(n)      == [op |-> "skip", n |-> n]
RangeS(a, b)  == [op |-> "range", a |-> a, b |-> b]
AggS(as)      == [op |-> "aggregate", aggs |-> as]

VMoves  == {"out", "in", "both", "outNull", "inNull"}          \* element -> vertex
EMoves  == {"outE", "inE", "bothE", "outENull", "inENull"}     \* vertex -> edge

Starts == { StartS("V", <<>>), StartS("E", <<>>), StartS("V", <<"a">>), StartS("E", <<"e1">>) }

CoreSteps ==
  { Mov("out", <<>>), Mov("in", <<"K1">>), Mov("both", <<>>), Mov("outE", <<>>), Mov("inE", <<"K1">>), Mov("bothE", <<>>),
    HasS(Cond("eq", N(1))), HasLabelS(<<"L1">>), HasIdS(<<"a">>), HasKeyS(<<"x">>),
    HasLabelS(<<>>), HasIdS(<<>>), HasKeyS(<<>>),
    AsS("m"), AsS("m2"), SelS(<<"m">>), SelS(<<"m", "m2">>), SelS(<<>>),
    FieldsS(<<"x">>), RenderS(S("_gid")), St("path"), UnwindS("l"), DistS(<<>>), St("count"),
    AggS(<< [name |-> "a1", t |-> "term", field |-> "x", size |-> 0] >>),
    LimS(1), StartS("V", <<>>) }
MoreSteps ==
  { Mov("outNull", <<>>), Mov("inNull", <<>>), Mov("outENull", <<>>), Mov("inENull", <<"K1">>),
    Mov("out", <<"K1", "K2">>), Mov("bothE", <<"K1">>),
    HasS(And(<<Cond("gt", N(0)), Not(Cond("within", L(<<N(1)>>)))>>)), HasLabelS(<<"L1", "L2">>), HasKeyS(<<"x", "s">>),
    SelS(<<"m2">>), SelS(<<"m2", "m">>),
    AsS(""), AsS("_gid"), AsS("__current__"), AsS("a b"), AsS("a.b"), AsS("$m"),
    FieldsS(<<>>), FieldsS(<<"-x">>), RenderS(M([g |-> S("_gid"), v |-> S("x")])), DistS(<<"x">>), DistS(<<"_label", "x">>),
    AggS(<< [name |-> "a1", t |-> "count"], [name |-> "a2", t |-> "field", field |-> "x"] >>),
    SkipS(1), RangeS(0, 1), RangeS(1, -1), StartS("E", <<>>), StartS("V", <<"a">>) }

\* marks and the moves between element types, one statement deeper than the full alphabet: a mark set on one
\* kind of element and selected from the other kind, re-marked and moved on from
MarkSteps ==
  { Mov("out", <<>>), Mov("outE", <<>>), Mov("inE", <<"K1">>), Mov("both", <<>>),
    AsS("m"), AsS("m2"), SelS(<<"m">>), SelS(<<"m2">>), SelS(<<"m", "m2">>), HasLabelS(<<"L1">>) }

Alphabet == IF Alpha = "full" THEN CoreSteps \cup MoreSteps ELSE IF Alpha = "marks" THEN MarkSteps ELSE CoreSteps

VARIABLES prog, status, ty, mt
vars == <<prog, status, ty, mt>>

------------------------------------------------------------------------
(* typing - the documented rules (as in Traversal.tla)                   *)
ElemTy == {"vertex", "edge"}
BadNameChars == {"a b", "a.b", "$m"}   \* representatives of names with forbidden characters
ValidName(n) == /\ n # "" /\ n \notin {"_gid", "_label", "_to", "_from", "_data", "__current__"}
                /\ n \notin BadNameChars

TypeOK(s) ==
  CASE s.op \in {"V", "E"}                  -> ty = "none"          \* only as the first statement
    [] ty = "none"                          -> FALSE                \* a traversal starts with V() or E()
    [] s.op \in VMoves                      -> ty \in ElemTy
    [] s.op \in EMoves                      -> ty = "vertex"
    [] s.op \in {"has", "fields", "render", "path", "distinct", "aggregate"} -> ty \in ElemTy
    [] s.op = "unwind"                      -> TRUE
    [] s.op = "hasLabel"                    -> ty \in ElemTy /\ s.labels # <<>>
    [] s.op = "hasId"                       -> ty \in ElemTy /\ s.ids # <<>>
    [] s.op = "hasKey"                      -> ty \in ElemTy /\ s.keys # <<>>
    [] s.op = "select"                      -> ty \in ElemTy /\ s.marks # <<>>
    [] s.op = "as"                          -> ValidName(s.name)
    [] s.op \in {"count", "limit", "skip", "range"} -> TRUE

NewTy(s) ==
  CASE s.op = "V"                        -> "vertex"
    [] s.op = "E"                        -> "edge"
    [] s.op \in VMoves                   -> "vertex"
    [] s.op \in EMoves                   -> "edge"
    [] s.op = "select"                   -> IF Len(s.marks) = 1 THEN mt[s.marks[1]] ELSE "selection"
    [] s.op = "render"                   -> "render"
    [] s.op = "path"                     -> "path"
    [] s.op = "count"                    -> "count"
    [] s.op = "aggregate"                -> "aggregation"
    [] OTHER                             -> ty

\* marks are defined before they are used (the property's side condition)
Defined(s) == s.op = "select" => SeqToSet(s.marks) \subseteq DOMAIN mt

Init == prog = <<>> /\ status = "ok" /\ ty = "none" /\ mt = <<>>

Apply(s) ==
  /\ TypeOK(s) /\ Defined(s)
  /\ prog' = Append(prog, s) /\ status' = "ok"
  /\ ty' = NewTy(s)
  /\ mt' = IF s.op = "as" THEN [n \in DOMAIN mt \cup {s.name} |-> IF n = s.name THEN ty ELSE mt[n]] ELSE mt

Reject(s) ==
  /\ ~TypeOK(s) /\ Defined(s)
  /\ prog' = Append(prog, s) /\ status' = "rejected"
  /\ UNCHANGED <<ty, mt>>

Next ==
  /\ status = "ok" /\ Len(prog) <= MaxLen
  /\ \E s \in (IF prog = <<>> THEN Starts \cup Alphabet ELSE Alphabet) : Apply(s) \/ Reject(s)

TypeInv == /\ status \in {"ok", "rejected"}
           /\ ty \in {"none", "vertex", "edge", "count", "render", "path", "selection", "aggregation"}
           /\ (ty \in ElemTy => \A m \in DOMAIN mt : mt[m] \in ElemTy)

EmitProg == prog # <<>> => Emit("prog", [prog |-> prog, status |-> status, ty |-> ty, mt |-> mt])
==========================================================================
