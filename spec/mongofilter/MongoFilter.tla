--------------------------- MODULE MongoFilter ---------------------------
(* C14, filter half: the standard meaning of a MongoDB query filter       *)
(* document, MongoSem(filter, doc), next to the meaning of has()          *)
(* expressions (HasSem.tla, validated against the core evaluator by C08). *)
(*                                                                        *)
(* This module is a property-level specification: it is a transcription   *)
(* of the MongoDB query-operator semantics, not of grip's translator.     *)
(* The filter documents it is applied to are the ones the REAL compiler   *)
(* emitted (MongoEval.tla reads them back), so what is decided is whether *)
(* the emitted document selects the documents HasSem keeps.               *)
(*                                                                        *)
(* Abstract syntax of a (normalised) filter document                      *)
(*   F   ::= << clause, ... >>              all clauses must hold         *)
(*   clause ::= [k |-> "and" | "or" | "nor", fs |-> << F, ... >>]         *)
(*            | [k |-> "field", path |-> "data.x", p |-> P]               *)
(*            | [k |-> "unk", name |-> "$where"]      (not modelled)      *)
(*   P   ::= << op, ... >>                  all operators must hold       *)
(*   op  ::= [o |-> "$eq"|"$ne"|"$gt"|"$gte"|"$lt"|"$lte"|"$in"|"$nin"|   *)
(*                  "$exists", v |-> value]                               *)
(*         | [o |-> "$not"|"$elemMatch", p |-> P]                         *)
(* A literal field value {path: v} is the operator <<[o |-> "$eq", v]>>.  *)
(* A Mongo document is a function from dotted paths to tagged values;     *)
(* a path outside its domain is a missing field.                          *)
EXTENDS HasSem

Field(doc, path) == IF path \in DOMAIN doc THEN doc[path] ELSE MISSING

(* BSON comparison is type-bracketed: values of different kinds never     *)
(* compare; null and a missing field share a bracket.                     *)
Bracket(v) == IF v[1] \in {"null", "missing"} THEN "null" ELSE v[1]

\* binary (byte-wise) order of the strings of the universe
StrRank == [s \in {"", "-1", "0", "1", "2", "L1", "L2", "a", "b", "z"} |->
              CASE s = "" -> 0 [] s = "-1" -> 1 [] s = "0" -> 2 [] s = "1" -> 3 [] s = "2" -> 4
                [] s = "L1" -> 5 [] s = "L2" -> 6 [] s = "a" -> 7 [] s = "b" -> 8 [] s = "z" -> 9]
Ranked(v) == v[1] # "s" \/ v[2] \in DOMAIN StrRank
Ord(v) == CASE v[1] = "n" -> v[2]
            [] v[1] = "s" -> IF v[2] \in DOMAIN StrRank THEN StrRank[v[2]] ELSE -1
            [] v[1] = "b" -> IF v[2] THEN 1 ELSE 0
            [] OTHER      -> 0

\* {f: {$eq: null}} matches null and missing; otherwise equality inside one bracket
EqV(w, a) == IF a = Null THEN IsNullish(w) ELSE w = a

\* $gt/$gte/$lt/$lte on one (non-array) value; arrays/documents as operands only ever
\* match arrays/documents, which the scalar documents of C14 do not contain
CmpV(o, w, a) ==
  /\ Bracket(w) = Bracket(a)
  /\ Bracket(a) \in {"n", "s", "b", "null"}
  /\ CASE o = "$gt"  -> Ord(w) >  Ord(a)
       [] o = "$gte" -> Ord(w) >= Ord(a)
       [] o = "$lt"  -> Ord(w) <  Ord(a)
       [] o = "$lte" -> Ord(w) <= Ord(a)

\* a query operator applied to an array-valued field holds if it holds for the array
\* as a whole or for one of its elements
Arr(v, T(_)) == T(v) \/ (IsList(v) /\ \E j \in DOMAIN v[2] : T(v[2][j]))

CmpOps == {"$gt", "$gte", "$lt", "$lte"}

RECURSIVE PSem(_, _)
PSem(P, v) ==
  \A j \in DOMAIN P :
    LET o == P[j] IN
    CASE o.o = "$eq"        -> Arr(v, LAMBDA w : EqV(w, o.v))
      [] o.o = "$ne"        -> ~Arr(v, LAMBDA w : EqV(w, o.v))
      [] o.o \in CmpOps     -> Arr(v, LAMBDA w : CmpV(o.o, w, o.v))
      [] o.o = "$in"        -> IsList(o.v) /\ \E a \in SeqToSet(o.v[2]) : Arr(v, LAMBDA w : EqV(w, a))
      [] o.o = "$nin"       -> ~(IsList(o.v) /\ \E a \in SeqToSet(o.v[2]) : Arr(v, LAMBDA w : EqV(w, a)))
      [] o.o = "$not"       -> ~PSem(o.p, v)
      [] o.o = "$exists"    -> (v # MISSING) = o.v[2]
      [] o.o = "$elemMatch" -> IsList(v) /\ \E i \in DOMAIN v[2] : PSem(o.p, v[2][i])
      [] OTHER              -> FALSE

RECURSIVE MongoSem(_, _)
MongoSem(F, doc) ==
  \A j \in DOMAIN F :
    LET c == F[j] IN
    CASE c.k = "and"   -> \A i \in DOMAIN c.fs : MongoSem(c.fs[i], doc)
      [] c.k = "or"    -> \E i \in DOMAIN c.fs : MongoSem(c.fs[i], doc)
      [] c.k = "nor"   -> ~\E i \in DOMAIN c.fs : MongoSem(c.fs[i], doc)
      [] c.k = "field" -> PSem(c.p, Field(doc, c.path))
      [] OTHER         -> FALSE

(* What a server refuses ("invalid") and what this module does not model  *)
(* ("unsupported"): MongoSem is meaningful only if Problems(F) = {}.       *)
RECURSIVE PProblems(_)
PProblems(P) ==
  UNION { LET o == P[j] IN
          CASE o.o \in {"$eq", "$ne"}         -> {}
            [] o.o \in CmpOps                 -> IF Ranked(o.v) THEN {} ELSE {<<"unsupported", "string outside the order table">>}
            [] o.o \in {"$in", "$nin"}        -> IF IsList(o.v) THEN {} ELSE {<<"invalid", "$in needs an array">>}
            [] o.o = "$exists"                -> IF o.v[1] = "b" THEN {} ELSE {<<"unsupported", "$exists operand">>}
            [] o.o \in {"$not", "$elemMatch"} -> IF o.p = <<>> THEN {<<"invalid", "empty operator document">>} ELSE PProblems(o.p)
            [] OTHER                          -> {<<"unsupported", o.o>>}
        : j \in DOMAIN P }

RECURSIVE Problems(_)
Problems(F) ==
  UNION { LET c == F[j] IN
          CASE c.k \in {"and", "or", "nor"} ->
                 IF c.fs = <<>> THEN {<<"invalid", "$and/$or/$nor must be a nonempty array">>}
                 ELSE UNION { Problems(c.fs[i]) : i \in DOMAIN c.fs }
            [] c.k = "field" -> PProblems(c.p)
            [] OTHER         -> {<<"unsupported", c.name>>}
        : j \in DOMAIN F }

(* A has-expression whose leaves have been replaced by filter documents:   *)
(* [t |-> "f", f |-> F]; Boolean structure as in HasSem.                   *)
RECURSIVE MixSem(_, _)
MixSem(x, doc) ==
  CASE x.t = "f"   -> MongoSem(x.f, doc)
    [] x.t = "not" -> ~MixSem(x.e, doc)
    [] x.t = "and" -> \A i \in DOMAIN x.es : MixSem(x.es[i], doc)
    [] x.t = "or"  -> \E i \in DOMAIN x.es : MixSem(x.es[i], doc)

RECURSIVE MixProblems(_)
MixProblems(x) ==
  CASE x.t = "f"   -> Problems(x.f)
    [] x.t = "not" -> MixProblems(x.e)
    [] OTHER       -> UNION { MixProblems(x.es[i]) : i \in DOMAIN x.es }

(* leaves of expression x (paired with the mix tree m) whose own filter    *)
(* document disagrees with the documented meaning of the condition on      *)
(* value v / document doc                                                  *)
RECURSIVE LeafBad(_, _, _, _)
LeafBad(x, m, v, doc) ==
  CASE x.t = "c"   -> IF ~OpenCase(x.op, v, x.arg) /\ Problems(m.f) = {} /\ MongoSem(m.f, doc) # CondSem(x.op, v, x.arg)
                      THEN {[op |-> x.op, arg |-> x.arg, got |-> MongoSem(m.f, doc)]} ELSE {}
    [] x.t = "not" -> LeafBad(x.e, m.e, v, doc)
    [] OTHER       -> UNION { LeafBad(x.es[i], m.es[i], v, doc) : i \in DOMAIN x.es }

(* Self-check of this module on hand-written filter documents (standard    *)
(* MongoDB behaviour, independent of grip).                                *)
FEq(p, a)  == << [k |-> "field", path |-> p, p |-> << [o |-> "$eq", v |-> a] >>] >>
FOp(p, o, a) == << [k |-> "field", path |-> p, p |-> << [o |-> o, v |-> a] >>] >>
FNot(p, o, a) == << [k |-> "field", path |-> p, p |-> << [o |-> "$not", p |-> << [o |-> o, v |-> a] >>] >>] >>
D(v) == IF v = MISSING THEN [y |-> N(0)] ELSE [x |-> v, y |-> N(0)]
ASSUME /\ MongoSem(FEq("x", N(1)), D(N(1))) /\ ~MongoSem(FEq("x", N(1)), D(S("1"))) /\ ~MongoSem(FEq("x", N(1)), D(MISSING))
       /\ MongoSem(FEq("x", Null), D(MISSING)) /\ MongoSem(FEq("x", Null), D(Null)) /\ ~MongoSem(FEq("x", Null), D(N(0)))
       /\ MongoSem(FOp("x", "$ne", N(1)), D(MISSING)) /\ MongoSem(FOp("x", "$ne", N(1)), D(S("1"))) /\ ~MongoSem(FOp("x", "$ne", N(1)), D(N(1)))
       /\ MongoSem(FOp("x", "$gt", N(0)), D(N(1))) /\ ~MongoSem(FOp("x", "$gt", N(0)), D(S("1"))) /\ ~MongoSem(FOp("x", "$gt", N(0)), D(B(TRUE)))
       /\ ~MongoSem(FOp("x", "$gt", N(0)), D(MISSING)) /\ MongoSem(FNot("x", "$gt", N(0)), D(MISSING)) /\ MongoSem(FNot("x", "$gt", N(0)), D(S("a")))
       /\ MongoSem(FOp("x", "$lt", S("a")), D(S("1"))) /\ MongoSem(FOp("x", "$lt", S("a")), D(S(""))) /\ ~MongoSem(FOp("x", "$lt", S("a")), D(N(0)))
       /\ MongoSem(FOp("x", "$gte", B(TRUE)), D(B(TRUE))) /\ ~MongoSem(FOp("x", "$gte", B(TRUE)), D(N(1)))
       /\ MongoSem(FOp("x", "$gte", Null), D(MISSING)) /\ ~MongoSem(FOp("x", "$gt", Null), D(Null))
       /\ MongoSem(FOp("x", "$in", L(<<N(1), S("a")>>)), D(S("a"))) /\ ~MongoSem(FOp("x", "$in", L(<<N(1)>>)), D(MISSING))
       /\ MongoSem(FOp("x", "$in", L(<<Null>>)), D(MISSING)) /\ MongoSem(FOp("x", "$in", L(<<N(1)>>)), D(L(<<N(0), N(1)>>)))
       /\ MongoSem(FOp("x", "$nin", L(<<N(1)>>)), D(MISSING)) /\ ~MongoSem(FOp("x", "$nin", L(<<N(1)>>)), D(N(1)))
       /\ MongoSem(FNot("x", "$in", L(<<N(1)>>)), D(MISSING)) /\ ~MongoSem(FOp("x", "$in", L(<<>>)), D(N(1)))
       /\ MongoSem(FEq("x", N(1)), D(L(<<N(0), N(1)>>))) /\ MongoSem(FOp("x", "$gt", N(0)), D(L(<<N(0), N(1)>>)))
       /\ MongoSem(FOp("x", "$exists", B(TRUE)), D(Null)) /\ ~MongoSem(FOp("x", "$exists", B(TRUE)), D(MISSING))
       /\ MongoSem(<< [k |-> "field", path |-> "x", p |-> << [o |-> "$elemMatch", p |-> << [o |-> "$eq", v |-> N(1)] >>] >>] >>, D(L(<<N(1)>>)))
       /\ ~MongoSem(<< [k |-> "field", path |-> "x", p |-> << [o |-> "$elemMatch", p |-> << [o |-> "$eq", v |-> N(1)] >>] >>] >>, D(N(1)))
       /\ MongoSem(<<>>, D(N(1)))
       /\ ~MongoSem(<< [k |-> "nor", fs |-> << <<>> >>] >>, D(N(1)))
       /\ MongoSem(<< [k |-> "or", fs |-> << FEq("x", N(1)), FEq("x", N(2)) >>] >>, D(N(2)))
       /\ ~MongoSem(<< [k |-> "and", fs |-> << FEq("x", N(1)), FEq("y", N(1)) >>] >>, D(N(1)))
       /\ Problems(<< [k |-> "and", fs |-> <<>>] >>) # {} /\ Problems(FOp("x", "$in", N(1))) # {} /\ Problems(FOp("x", "$regex", S("a"))) # {}
       /\ Problems(FNot("x", "$gt", N(0))) = {}
==========================================================================
