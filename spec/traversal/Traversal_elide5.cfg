CONSTANTS
  MaxLen = 5
  GraphIdx = {6, 7}
  Alpha = "elide"
SPECIFICATION Spec
INVARIANT TypeInv
INVARIANT EmitState
CHECK_DEADLOCK FALSE
