CONSTANTS
  MaxLen = 5
  GraphIdx = {4, 6, 7}
  Alpha = "path"
SPECIFICATION Spec
INVARIANT TypeInv
INVARIANT EmitState
CHECK_DEADLOCK FALSE
