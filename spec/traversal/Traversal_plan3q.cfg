CONSTANTS
  MaxLen = 3
  GraphIdx = {3, 6, 7}
  Alpha = "plan"
SPECIFICATION Spec
INVARIANT TypeInv
INVARIANT EmitState
CHECK_DEADLOCK FALSE
