CONSTANTS
  MaxLen = 3
  GraphIdx = {3, 4, 6, 7}
  Alpha = "spell"
SPECIFICATION Spec
INVARIANT TypeInv
INVARIANT EmitState
CHECK_DEADLOCK FALSE
