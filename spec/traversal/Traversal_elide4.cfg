CONSTANTS
  MaxLen = 4
  GraphIdx = {6, 7}
  Alpha = "elide"
SPECIFICATION Spec
INVARIANT TypeInv
INVARIANT EmitState
CHECK_DEADLOCK FALSE
