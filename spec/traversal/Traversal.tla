--------------------------- MODULE Traversal ---------------------------
(* C01 (and the reference semantics reused by C02, C06, C11, C12, C15): *)
(* the documented step-by-step meaning of GripQL traversals.            *)
(*                                                                      *)
(* A state is a (graph, program) pair together with everything the      *)
(* documented semantics says about its result:                          *)
(*   status   "ok" | "rejected"  (ill-typed: error before any row)      *)
(*   ty, mt   result type and mark types                                *)
(*   rows     the rows of the program with truncating steps NOT applied,*)
(*            each tagged with an origin `org`                          *)
(*   blocks   the choices the property leaves open, as a sequence of    *)
(*            [orgs, pick]: the result is the multiset of rows whose    *)
(*            origin is selected, where a selection takes exactly       *)
(*            `pick` origins out of every block (limit/skip/range: one  *)
(*            block with the arithmetic count; distinct: one block per  *)
(*            key group, pick 1)                                        *)
(*   counted  a count() step was applied: the result is one row holding *)
(*            the size of the selected multiset (cntKeep = how many of  *)
(*            that single row survive later truncations)                *)
(* The only action is "append one step", so TLC's breadth-first search  *)
(* enumerates all programs over the alphabet up to MaxLen, and          *)
(* -simulate continues randomly beyond it.                              *)
EXTENDS HasSem, Graphs, SequencesExt

CONSTANTS MaxLen,      \* number of steps after the start statement
          GraphIdx,    \* indices into GraphFamily explored
          Alpha        \* "narrow" | "wide" | "plan": which step alphabet is explored

VARIABLES gi, prog, status, ty, mt, rows, blocks, counted, cntKeep, pathOK
vars == <<gi, prog, status, ty, mt, rows, blocks, counted, cntKeep, pathOK>>

G == GraphFamily[gi]

------------------------------------------------------------------------
(* field references                                                     *)
Ref(s, ns, p) == [s |-> s, ns |-> ns, p |-> p]
RGid   == Ref("_gid", "", <<"_gid">>)
RLabel == Ref("_label", "", <<"_label">>)
RX     == Ref("x", "", <<"x">>)
RS     == Ref("s", "", <<"s">>)
RW     == Ref("w", "", <<"w">>)
RL     == Ref("l", "", <<"l">>)
RNK    == Ref("n.k", "", <<"n", "k">>)
RData  == Ref("_data", "", <<"_data">>)
RDX    == Ref("_data.x", "", <<"x">>)
RMX    == Ref("$m.x", "m", <<"x">>)
RMGid  == Ref("$m._gid", "m", <<"_gid">>)
RM2Lab == Ref("$m2._label", "m2", <<"_label">>)

RECURSIVE Walk(_, _)
Walk(v, p) == IF p = <<>> THEN v
              ELSE IF IsMap(v) /\ Head(p) \in DOMAIN v[2] THEN Walk(v[2][Head(p)], Tail(p))
              ELSE MISSING
LookupEl(el, p) ==
  CASE p = <<"_gid">>   -> S(el.gid)
    [] p = <<"_label">> -> S(el.label)
    [] p = <<"_from">>  -> S(el.from)
    [] p = <<"_to">>    -> S(el.to)
    [] p = <<"_data">>  -> el.data
    [] OTHER            -> Walk(el.data, p)
Lookup(r, ref) == LookupEl(IF ref.ns = "" THEN r.cur ELSE r.marks[ref.ns], ref.p)

\* has-expressions over references
C(op, ref, arg) == [t |-> "c", op |-> op, key |-> ref, arg |-> arg]
RECURSIVE TSem(_, _)
TSem(x, r) ==
  CASE x.t = "c"   -> CondSem(x.op, Lookup(r, x.key), x.arg)
    [] x.t = "not" -> ~TSem(x.e, r)
    [] x.t = "and" -> \A i \in DOMAIN x.es : TSem(x.es[i], r)
    [] x.t = "or"  -> \E i \in DOMAIN x.es : TSem(x.es[i], r)
RECURSIVE EmitE(_)
EmitE(x) ==
  CASE x.t = "c"   -> [t |-> "c", op |-> x.op, key |-> x.key.s, arg |-> x.arg]
    [] x.t = "not" -> [t |-> "not", e |-> EmitE(x.e)]
    [] OTHER       -> [t |-> x.t, es |-> [i \in DOMAIN x.es |-> EmitE(x.es[i])]]

\* render templates: <<"ref", r>> | <<"m", [k |-> tpl]>> | <<"l", <<tpl..>>>>
RECURSIVE RenderT(_, _)
RenderT(t, r) ==
  CASE t[1] = "ref" -> (LET v == Lookup(r, t[2]) IN IF v = MISSING THEN Null ELSE v)
    [] t[1] = "m"   -> M([k \in DOMAIN t[2] |-> RenderT(t[2][k], r)])
    [] t[1] = "l"   -> L([i \in DOMAIN t[2] |-> RenderT(t[2][i], r)])
RECURSIVE EmitT(_)
EmitT(t) ==
  CASE t[1] = "ref" -> S(t[2].s)
    [] t[1] = "m"   -> M([k \in DOMAIN t[2] |-> EmitT(t[2][k])])
    [] t[1] = "l"   -> L([i \in DOMAIN t[2] |-> EmitT(t[2][i])])

------------------------------------------------------------------------
(* the step alphabet; `uses` = marks a step reads                        *)
St(op)          == [op |-> op, uses |-> {}]
Mov(op, ls)     == [op |-> op, labels |-> ls, uses |-> {}]
HasS(e, u)      == [op |-> "has", e |-> e, uses |-> u]
HasLabelS(ls)   == [op |-> "hasLabel", labels |-> ls, uses |-> {}]
HasIdS(ids)     == [op |-> "hasId", ids |-> ids, uses |-> {}]
HasKeyS(ks)     == [op |-> "hasKey", keys |-> ks, uses |-> {}]
AsS(n)          == [op |-> "as", name |-> n, uses |-> {}]
SelS(ms)        == [op |-> "select", marks |-> ms, uses |-> SeqToSet(ms)]
FieldsS(inc, exc) == [op |-> "fields", inc |-> inc, exc |-> exc, uses |-> {}]
RenderS(t, u)   == [op |-> "render", tpl |-> t, uses |-> u]
UnwindS(r)      == [op |-> "unwind", field |-> r, uses |-> {}]
DistS(rs, u)    == [op |-> "distinct", refs |-> rs, uses |-> u]
LimS(n)         == [op |-> "limit", n |-> n, uses |-> {}]
SkipS(n)        == [op |-> "skip", n |-> n, uses |-> {}]
RangeS(a, b)    == [op |-> "range", a |-> a, b |-> b, uses |-> {}]
StartS(op, ids) == [op |-> op, ids |-> ids, uses |-> {}]

Moves == { Mov("out", <<>>), Mov("in", <<>>), Mov("both", <<>>), Mov("outE", <<>>), Mov("inE", <<>>),
           Mov("bothE", <<>>), Mov("out", <<"K1">>), Mov("outE", <<"K1">>) }
MovesW == { Mov("in", <<"K1", "K2">>), Mov("both", <<"K2">>), Mov("inE", <<"K2">>), Mov("bothE", <<"K1">>),
            Mov("out", <<"X">>), Mov("in", <<"L1">>) }
Filters == { HasS(C("eq", RX, N(1)), {}), HasS(C("eq", RLabel, S("L1")), {}), HasS(C("eq", RGid, S("a")), {}),
             HasS(C("eq", RMX, N(1)), {"m"}),
             HasLabelS(<<"L1">>), HasIdS(<<"a">>), HasKeyS(<<RX>>) }
FiltersW == { HasS(C("gt", RX, N(1)), {}), HasS(C("within", RLabel, L(<<S("L1")>>)), {}),
              HasS([t |-> "and", es |-> <<C("eq", RLabel, S("L1"))>>], {}),
              HasS([t |-> "and", es |-> <<C("eq", RLabel, S("L1")), C("eq", RX, N(1))>>], {}),
              HasS(C("within", RGid, L(<<S("a"), S("b")>>)), {}),
              HasS([t |-> "not", e |-> C("eq", RX, N(1))], {}), HasS(C("neq", RS, S("p")), {}),
              HasS(C("eq", RW, N(1)), {}), HasS(C("eq", RNK, N(1)), {}), HasS(C("eq", RDX, N(2)), {}),
              HasS(C("contains", RL, N(1)), {}), HasS(C("eq", RLabel, S("K1")), {}),
              HasLabelS(<<"L1", "L2">>), HasLabelS(<<"X">>), HasLabelS(<<"K1">>), HasLabelS(<<"L2">>),
              HasIdS(<<"a", "z">>), HasIdS(<<"e1">>), HasIdS(<<"b">>),
              HasKeyS(<<RX, RS>>), HasKeyS(<<RW>>), HasKeyS(<<RNK>>) }
Marks == { AsS("m"), SelS(<<"m">>) }
MarksW == { AsS("m2"), SelS(<<"m", "m2">>), SelS(<<"m2">>) }
Projs == { FieldsS(<<>>, <<>>), FieldsS(<<"x">>, <<>>),
           RenderS(<<"m", [g |-> <<"ref", RGid>>, v |-> <<"ref", RX>>]>>, {}),
           St("path"), DistS(<<>>, {}), St("count") }
ProjsW == { FieldsS(<<>>, <<"x">>), FieldsS(<<"x", "s">>, <<>>), FieldsS(<<"w">>, <<>>),
            RenderS(<<"ref", RGid>>, {}),
            RenderS(<<"l", << <<"ref", RLabel>>, <<"ref", RNK>>, <<"ref", RData>> >> >>, {}),
            RenderS(<<"m", [a |-> <<"ref", RMX>>, b |-> <<"ref", RMGid>>, c |-> <<"ref", RW>>]>>, {"m"}),
            UnwindS(RL), DistS(<<RLabel>>, {}), DistS(<<RX>>, {}), DistS(<<RMGid>>, {"m"}),
            DistS(<<RLabel, RX>>, {}) }
Truncs == { LimS(1), SkipS(1), RangeS(1, -1) }
TruncsW == { LimS(0), LimS(2), SkipS(2), RangeS(0, 1), RangeS(1, 2), RangeS(0, 0), LimS(3) }

\* duplicated arguments and equivalent spellings of id/label filters (C02)
Spellings == { HasLabelS(<<"L1", "L1">>), HasIdS(<<"a", "a">>), HasS(C("within", RGid, L(<<S("a"), S("a")>>)), {}),
               HasS(C("within", RLabel, L(<<S("L1"), S("L1")>>)), {}),
               HasS([t |-> "and", es |-> <<C("eq", RGid, S("a"))>>], {}),
               HasS([t |-> "and", es |-> <<[t |-> "and", es |-> <<C("eq", RLabel, S("L1"))>>]>>], {}),
               HasS([t |-> "or", es |-> <<C("eq", RLabel, S("L1"))>>], {}) }
\* steps whose later statements read data of earlier steps or marks (planner emphasis)
PlanAlpha == { Mov("out", <<>>), Mov("outE", <<>>), Mov("in", <<>>), Mov("inE", <<>>), AsS("m"), SelS(<<"m">>),
               HasS(C("eq", RMX, N(1)), {"m"}), HasS(C("eq", RX, N(1)), {}), HasS(C("eq", RLabel, S("L1")), {}),
               HasKeyS(<<RX>>), HasKeyS(<<RW>>), HasLabelS(<<"L1">>), HasIdS(<<"a">>),
               RenderS(<<"m", [a |-> <<"ref", RMX>>, b |-> <<"ref", RMGid>>, c |-> <<"ref", RW>>]>>, {"m"}),
               RenderS(<<"m", [g |-> <<"ref", RGid>>, v |-> <<"ref", RX>>]>>, {}),
               FieldsS(<<"x">>, <<>>), FieldsS(<<>>, <<>>), UnwindS(RL), DistS(<<RMGid>>, {"m"}), DistS(<<RX>>, {}),
               St("path"), St("count"), LimS(1) }

\* long walks: moves only, then path/select - exercises traveler copying (path, marks) under fan-out
PathAlpha == { Mov("out", <<>>), Mov("in", <<>>), Mov("both", <<>>), Mov("outE", <<>>), AsS("m"), St("path"), SelS(<<"m">>), St("count") }

\* load-elision patterns: several filters and readers inside one step, followed by another move or count
AllLabels == <<"K1", "K2", "L1", "L2">>
ElideAlpha == { Mov("outE", <<>>), Mov("out", <<>>), Mov("inE", <<>>), HasLabelS(AllLabels), HasLabelS(<<"K1", "L1">>),
                HasS(C("eq", RX, N(1)), {}), HasKeyS(<<RW>>), HasKeyS(<<RX>>), St("count"), AsS("m"), SelS(<<"m">>) }

\* equivalent spellings of id/label filters, each followed by one more statement
SpellAlpha == Spellings \cup { HasLabelS(<<"L1">>), HasIdS(<<"a">>), HasS(C("eq", RLabel, S("L1")), {}), HasS(C("eq", RGid, S("a")), {}),
                              HasS(C("within", RLabel, L(<<S("L1")>>)), {}), HasS(C("eq", RX, N(1)), {}), Mov("out", <<>>), Mov("outE", <<>>), St("count") }

Alphabet == IF Alpha = "plan" THEN PlanAlpha
            ELSE IF Alpha = "spell" THEN SpellAlpha
            ELSE IF Alpha = "elide" THEN ElideAlpha
            ELSE IF Alpha = "path" THEN PathAlpha
            ELSE Moves \cup Filters \cup Marks \cup Projs \cup Truncs
                 \cup (IF Alpha = "wide" THEN MovesW \cup FiltersW \cup MarksW \cup ProjsW \cup TruncsW \cup Spellings ELSE {})

Starts == (IF Alpha = "elide" THEN { StartS("V", <<>>), StartS("E", <<>>) }
           ELSE { StartS("V", <<>>), StartS("E", <<>>), StartS("V", <<"a">>) })
          \cup (IF Alpha = "wide" THEN { StartS("V", <<"b", "a", "z">>), StartS("E", <<"e1">>), StartS("E", <<"e2", "zz">>) } ELSE {})

\* representatives of every rejection rule (ill-typed statements)
IllSteps == { StartS("V", <<>>), StartS("E", <<>>), HasLabelS(<<>>), HasIdS(<<>>), HasKeyS(<<>>), SelS(<<>>),
              AsS(""), AsS("_gid"), AsS("__current__"), AsS("a b"), AsS("-m"), AsS("a.b"), AsS("$m") }
IllStarts == { Mov("out", <<>>), St("count"), LimS(1), HasLabelS(<<"L1">>), AsS("m"), St("path") }

------------------------------------------------------------------------
(* typing - transcribed from the documented rules                       *)
ElemTy == {"vertex", "edge"}
BadNameChars == {"a b", "a.b", "$m"}   \* representatives of names with forbidden characters
ValidName(n) == /\ n # "" /\ n \notin {"_gid", "_label", "_to", "_from", "_data", "__current__"}
                /\ n \notin BadNameChars /\ n # "-m"

TypeOK(s) ==
  CASE s.op \in {"V", "E"}                  -> FALSE
    [] s.op \in {"out", "in", "both"}       -> ty \in ElemTy
    [] s.op \in {"outE", "inE", "bothE"}    -> ty = "vertex"
    [] s.op \in {"has", "fields", "render", "path", "distinct"} -> ty \in ElemTy
    [] s.op = "unwind"                      -> TRUE
    [] s.op = "hasLabel"                    -> ty \in ElemTy /\ s.labels # <<>>
    [] s.op = "hasId"                       -> ty \in ElemTy /\ s.ids # <<>>
    [] s.op = "hasKey"                      -> ty \in ElemTy /\ s.keys # <<>>
    [] s.op = "select"                      -> ty \in ElemTy /\ s.marks # <<>>
    [] s.op = "as"                          -> ValidName(s.name)
    [] s.op \in {"count", "limit", "skip", "range"} -> TRUE

NewTy(s) ==
  CASE s.op \in {"out", "in", "both"}    -> "vertex"
    [] s.op \in {"outE", "inE", "bothE"} -> "edge"
    [] s.op = "select"                   -> IF Len(s.marks) = 1 THEN mt[s.marks[1]] ELSE "selection"
    [] s.op = "render"                   -> "render"
    [] s.op = "path"                     -> "path"
    [] s.op = "count"                    -> "count"
    [] OTHER                             -> ty

------------------------------------------------------------------------
(* per-row semantics                                                    *)
MapSeq(q, F(_)) == [j \in DOMAIN q |-> F(q[j])]
FlatMap(q, F(_)) == LET f[i \in 0..Len(q)] == IF i = 0 THEN <<>> ELSE f[i - 1] \o F(q[i]) IN f[Len(q)]

Mv(r, el) == [r EXCEPT !.cur = el, !.path = Append(@, <<el.k, el.gid>>)]
LabelOK(ls, l) == ls = <<>> \/ l \in SeqToSet(ls)
OutEs(g, v, ls) == SelectSeq(g.es, LAMBDA e : g.E[e].from = v /\ LabelOK(ls, g.E[e].label))
InEs(g, v, ls)  == SelectSeq(g.es, LAMBDA e : g.E[e].to = v /\ LabelOK(ls, g.E[e].label))
ToV(g, r, ids) == LET ok == SelectSeq(ids, LAMBDA i : HasV(g, i)) IN MapSeq(ok, LAMBDA i : Mv(r, VElem(g, i)))
ToE(g, r, ids) == MapSeq(ids, LAMBDA i : Mv(r, EElem(g, i)))

SetKey(m, k, v) == M([x \in DOMAIN m[2] \cup {k} |-> IF x = k THEN v ELSE m[2][x]])
RestrictM(m, ks) == M([x \in DOMAIN m[2] \cap ks |-> m[2][x]])

UnwindOpen(s, r) == LET v == Lookup(r, s.field) IN ~(IsList(v) /\ v[2] # <<>>)

StepRow(s, g, r) ==
  CASE s.op = "out"   -> IF r.cur.k = "v"
                         THEN ToV(g, r, MapSeq(OutEs(g, r.cur.gid, s.labels), LAMBDA e : g.E[e].to))
                         ELSE ToV(g, r, <<r.cur.to>>)
    [] s.op = "in"    -> IF r.cur.k = "v"
                         THEN ToV(g, r, MapSeq(InEs(g, r.cur.gid, s.labels), LAMBDA e : g.E[e].from))
                         ELSE ToV(g, r, <<r.cur.from>>)
    [] s.op = "both"  -> IF r.cur.k = "v"
                         THEN ToV(g, r, MapSeq(InEs(g, r.cur.gid, s.labels), LAMBDA e : g.E[e].from))
                              \o ToV(g, r, MapSeq(OutEs(g, r.cur.gid, s.labels), LAMBDA e : g.E[e].to))
                         ELSE ToV(g, r, <<r.cur.from>>) \o ToV(g, r, <<r.cur.to>>)
    [] s.op = "outE"  -> ToE(g, r, OutEs(g, r.cur.gid, s.labels))
    [] s.op = "inE"   -> ToE(g, r, InEs(g, r.cur.gid, s.labels))
    [] s.op = "bothE" -> ToE(g, r, InEs(g, r.cur.gid, s.labels)) \o ToE(g, r, OutEs(g, r.cur.gid, s.labels))
    [] s.op = "has"      -> IF TSem(s.e, r) THEN <<r>> ELSE <<>>
    [] s.op = "hasLabel" -> IF r.cur.label \in SeqToSet(s.labels) THEN <<r>> ELSE <<>>
    [] s.op = "hasId"    -> IF r.cur.gid \in SeqToSet(s.ids) THEN <<r>> ELSE <<>>
    [] s.op = "hasKey"   -> IF \A i \in DOMAIN s.keys : Lookup(r, s.keys[i]) # MISSING THEN <<r>> ELSE <<>>
    [] s.op = "as"       -> << [r EXCEPT !.marks = [n \in DOMAIN r.marks \cup {s.name} |->
                                                     IF n = s.name THEN r.cur ELSE r.marks[n]]] >>
    [] s.op = "select"   -> IF Len(s.marks) = 1
                            THEN << [r EXCEPT !.cur = r.marks[s.marks[1]]] >>
                            ELSE << [r EXCEPT !.out = [k |-> "s", m |-> [n \in SeqToSet(s.marks) |-> r.marks[n]]]] >>
    [] s.op = "fields"   -> << [r EXCEPT !.cur.data =
                                  IF s.inc # <<>> THEN RestrictM(r.cur.data, SeqToSet(s.inc))
                                  ELSE IF s.exc # <<>> THEN RestrictM(r.cur.data, DOMAIN r.cur.data[2] \ SeqToSet(s.exc))
                                  ELSE EmptyMap] >>
    [] s.op = "render"   -> << [r EXCEPT !.out = [k |-> "r", v |-> RenderT(s.tpl, r)]] >>
    [] s.op = "path"     -> << [r EXCEPT !.out = [k |-> "p", p |-> r.path]] >>
    [] s.op = "unwind"   -> IF UnwindOpen(s, r)
                            THEN << [r EXCEPT !.cur.data = SetKey(r.cur.data, s.field.p[1], Null)] >>
                            ELSE LET lst == Lookup(r, s.field)[2]
                                 IN  [i \in DOMAIN lst |-> [r EXCEPT !.cur.data = SetKey(r.cur.data, s.field.p[1], lst[i])]]

\* "Unwind an array" is documented for arrays only.  A row whose field is an empty list, absent or not a list
\* is OPEN: the result may or may not contain one row for it, and if it does that row is the same element
\* (id, label, endpoints, other data) with the field set to null.  Open rows are expressed as optional blocks,
\* so they are only explored before any other choice.
UnwindOpenAt(s, i) == LET v == Lookup(rows[i], s.field) IN ~(IsList(v) /\ v[2] # <<>>)
UnwindDefined(s) == (\E i \in DOMAIN rows : UnwindOpenAt(s, i)) => (blocks = <<>> /\ ~counted)
\* distinct is explored where every row has every key
DistKey(s, r) == IF s.refs = <<>> THEN <<S(r.cur.gid)>> ELSE [i \in DOMAIN s.refs |-> Lookup(r, s.refs[i])]
DistDefined(s) == \A i \in DOMAIN rows : \A j \in DOMAIN DistKey(s, rows[i]) : DistKey(s, rows[i])[j] # MISSING

------------------------------------------------------------------------
(* truncation arithmetic                                                *)
MinN(a, b) == IF a < b THEN a ELSE b
MaxN(a, b) == IF a > b THEN a ELSE b
Arith(s, n) ==
  CASE s.op = "limit" -> MinN(s.n, n)
    [] s.op = "skip"  -> MaxN(n - s.n, 0)
    [] s.op = "range" -> IF s.b = -1 THEN MaxN(n - s.a, 0) ELSE MaxN(MinN(s.b, n) - s.a, 0)

Retag == [i \in DOMAIN rows |-> [rows[i] EXCEPT !.org = i]]
OneRowPerOrg == \A o \in blocks[1].orgs : Cardinality({i \in DOMAIN rows : rows[i].org = o}) = 1

\* what the specification leaves out of the alphabet because the documentation is silent
Defined(s) ==
  /\ s.uses \subseteq DOMAIN mt
  /\ (s.op \in {"out", "in", "both"} /\ ty = "edge") => s.labels = <<>>
  /\ s.op = "path" => pathOK
  /\ s.op = "unwind" => (ty \in ElemTy /\ UnwindDefined(s))
  /\ s.op = "distinct" => (blocks = <<>> /\ DistDefined(s))
  /\ s.op \in {"limit", "skip", "range"} =>
        \/ counted
        \/ blocks = <<>>
        \/ (Len(blocks) = 1 /\ blocks[1].kind = "keep" /\ OneRowPerOrg)
  /\ s.op = "count" => ~counted
  /\ (counted /\ TypeOK(s)) => s.op \in {"limit", "skip", "range"}
  /\ (ty \in {"render", "path", "selection"} /\ TypeOK(s)) => s.op \in {"limit", "skip", "range", "count"}

------------------------------------------------------------------------
Row0 == [cur |-> [k |-> "none"], marks |-> <<>>, path |-> <<>>, org |-> 0, out |-> Null]

StartRows(g, s) ==
  IF s.op = "V"
  THEN ToV(g, Row0, IF s.ids = <<>> THEN g.vs ELSE s.ids)
  ELSE ToE(g, Row0, IF s.ids = <<>> THEN g.es ELSE SelectSeq(s.ids, LAMBDA i : HasE(g, i)))

Init ==
  /\ gi \in GraphIdx
  /\ mt = <<>> /\ blocks = <<>> /\ counted = FALSE /\ cntKeep = 1 /\ pathOK = TRUE
  /\ \/ \E s \in Starts : /\ prog = <<s>> /\ status = "ok"
                          /\ ty = (IF s.op = "V" THEN "vertex" ELSE "edge")
                          /\ rows = StartRows(GraphFamily[gi], s)
     \/ \E s \in IllStarts : prog = <<s>> /\ status = "rejected" /\ ty = "none" /\ rows = <<>>

Reject(s) ==
  /\ ~TypeOK(s)
  /\ status' = "rejected" /\ prog' = Append(prog, s)
  /\ UNCHANGED <<gi, ty, mt, rows, blocks, counted, cntKeep, pathOK>>

Apply(s) ==
  /\ TypeOK(s) /\ Defined(s)
  /\ prog' = Append(prog, s)
  /\ ty' = NewTy(s)
  /\ mt' = IF s.op = "as" THEN [n \in DOMAIN mt \cup {s.name} |-> IF n = s.name THEN ty ELSE mt[n]] ELSE mt
  /\ pathOK' = (pathOK /\ ~(s.op \in {"fields", "unwind"} \/ (s.op = "select" /\ Len(s.marks) = 1)))
  /\ UNCHANGED <<gi, status>>
  /\ IF s.op = "count"
     THEN counted' = TRUE /\ UNCHANGED <<rows, blocks, cntKeep>>
     ELSE IF s.op \in {"limit", "skip", "range"}
     THEN IF counted
          THEN cntKeep' = Arith(s, cntKeep) /\ UNCHANGED <<rows, blocks, counted>>
          ELSE IF blocks = <<>>
          THEN LET k == Arith(s, Len(rows)) IN
               /\ UNCHANGED <<counted, cntKeep>>
               /\ IF k = Len(rows) THEN UNCHANGED <<rows, blocks>>
                  ELSE IF k = 0 THEN rows' = <<>> /\ blocks' = <<>>
                  ELSE rows' = Retag /\ blocks' = << [kind |-> "keep", orgs |-> DOMAIN rows, pick |-> k] >>
          ELSE LET k == Arith(s, blocks[1].pick) IN
               /\ UNCHANGED <<counted, cntKeep>>
               /\ IF k = 0 THEN rows' = <<>> /\ blocks' = <<>>
                  ELSE rows' = rows /\ blocks' = << [blocks[1] EXCEPT !.pick = k] >>
     ELSE IF s.op = "distinct"
     THEN LET keys == {DistKey(s, rows[i]) : i \in DOMAIN rows}
              grp(kk) == {i \in DOMAIN rows : DistKey(s, rows[i]) = kk}
          IN /\ UNCHANGED <<counted, cntKeep>>
             /\ IF \A kk \in keys : Cardinality(grp(kk)) = 1
                THEN UNCHANGED <<rows, blocks>>
                ELSE /\ rows' = Retag
                     /\ blocks' = SetToSeq({ [kind |-> "one", orgs |-> grp(kk), pick |-> 1] : kk \in keys })
     ELSE IF s.op = "unwind" /\ (\E i \in DOMAIN rows : UnwindOpenAt(s, i))
     THEN /\ rows' = FlatMap(Retag, LAMBDA r : StepRow(s, G, r))
          /\ blocks' = [i \in DOMAIN rows |-> [kind |-> "opt", orgs |-> {i}, pick |-> 1,
                                                pmin |-> IF UnwindOpenAt(s, i) THEN 0 ELSE 1]]
          /\ UNCHANGED <<counted, cntKeep>>
     ELSE /\ rows' = FlatMap(rows, LAMBDA r : StepRow(s, G, r))
          /\ UNCHANGED <<blocks, counted, cntKeep>>

Live == status = "ok" /\ Len(prog) <= MaxLen
\* once no row is left only count() can still say something new
Worth(s) == rows # <<>> \/ s.op \in {"count"} \/ counted

Next ==
  /\ Live
  /\ \/ \E s \in Alphabet : Worth(s) /\ Apply(s)
     \/ \E s \in IllSteps \cup Alphabet : Len(prog) <= 2 /\ Reject(s)

Spec == Init /\ [][Next]_vars

------------------------------------------------------------------------
(* sanity of the oracle itself                                          *)
Orgs == {rows[i].org : i \in DOMAIN rows}
TypeInv ==
  /\ status = "rejected" => TRUE
  /\ (status = "ok" /\ ty = "vertex" /\ ~counted) => \A i \in DOMAIN rows : rows[i].cur.k = "v"
  /\ (status = "ok" /\ ty = "edge" /\ ~counted) => \A i \in DOMAIN rows : rows[i].cur.k = "e"
  /\ \A b \in DOMAIN blocks : /\ blocks[b].pick <= Cardinality(blocks[b].orgs) /\ blocks[b].pick >= 1
  /\ blocks # <<>> => Orgs \subseteq UNION {blocks[b].orgs : b \in DOMAIN blocks}
  /\ cntKeep \in {0, 1}
  /\ \A m \in DOMAIN mt : mt[m] \in ElemTy

------------------------------------------------------------------------
(* emission: one JSON line per state                                    *)
ElemOut(el) == IF el.k = "v" THEN [k |-> "v", gid |-> el.gid, label |-> el.label, data |-> el.data]
               ELSE [k |-> "e", gid |-> el.gid, label |-> el.label, from |-> el.from, to |-> el.to, data |-> el.data]
OutRow(r) ==
  IF counted THEN [k |-> "x"]
  ELSE IF ty \in ElemTy THEN ElemOut(r.cur)
  ELSE IF ty = "selection" THEN [k |-> "s", m |-> [n \in DOMAIN r.out.m |-> ElemOut(r.out.m[n])]]
  ELSE IF ty = "path" THEN [k |-> "p", p |-> [i \in DOMAIN r.out.p |-> r.out.p[i]]]
  ELSE r.out

EmitStep(s) ==
  CASE s.op \in {"V", "E"} -> [op |-> s.op, ids |-> s.ids]
    [] s.op \in {"out", "in", "both", "outE", "inE", "bothE", "hasLabel"} -> [op |-> s.op, labels |-> s.labels]
    [] s.op = "has"      -> [op |-> "has", e |-> EmitE(s.e)]
    [] s.op = "hasId"    -> [op |-> "hasId", ids |-> s.ids]
    [] s.op = "hasKey"   -> [op |-> "hasKey", keys |-> [i \in DOMAIN s.keys |-> s.keys[i].s]]
    [] s.op = "as"       -> [op |-> "as", name |-> s.name]
    [] s.op = "select"   -> [op |-> "select", marks |-> s.marks]
    [] s.op = "fields"   -> [op |-> "fields", fields |-> s.inc \o [i \in DOMAIN s.exc |-> "-" \o s.exc[i]]]
    [] s.op = "render"   -> [op |-> "render", tpl |-> EmitT(s.tpl)]
    [] s.op = "unwind"   -> [op |-> "unwind", field |-> s.field.s]
    [] s.op = "distinct" -> [op |-> "distinct", fields |-> [i \in DOMAIN s.refs |-> s.refs[i].s]]
    [] s.op = "limit"    -> [op |-> "limit", n |-> s.n]
    [] s.op = "skip"     -> [op |-> "skip", n |-> s.n]
    [] s.op = "range"    -> [op |-> "range", a |-> s.a, b |-> s.b]
    [] OTHER             -> [op |-> s.op]

EmitState ==
  Emit("st", [g |-> gi, prog |-> [i \in DOMAIN prog |-> EmitStep(prog[i])], status |-> status, ty |-> ty,
              mt |-> mt, counted |-> counted, cntKeep |-> cntKeep,
              blocks |-> [b \in DOMAIN blocks |-> [orgs |-> blocks[b].orgs, pick |-> blocks[b].pick,
                                                    pmin |-> IF blocks[b].kind = "opt" THEN blocks[b].pmin ELSE blocks[b].pick]],
              rows |-> [i \in DOMAIN rows |-> [org |-> rows[i].org, o |-> OutRow(rows[i])]]])
EmitGraphs == Emit("graphs", [i \in DOMAIN GraphFamily |-> [V |-> GraphFamily[i].V, E |-> GraphFamily[i].E]])
ASSUME EmitGraphs
=======================================================================
