CONSTANTS
  MaxLen = 2
  GraphIdx = {1, 2, 3, 4, 5, 6, 7}
  Alpha = "narrow"
SPECIFICATION Spec
INVARIANT TypeInv
INVARIANT EmitState
CHECK_DEADLOCK FALSE
