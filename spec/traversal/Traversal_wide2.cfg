CONSTANTS
  MaxLen = 2
  GraphIdx = {1, 2, 3, 4, 5, 6, 7, 9}
  Alpha = "wide"
SPECIFICATION Spec
INVARIANT TypeInv
INVARIANT EmitState
CHECK_DEADLOCK FALSE
