CONSTANTS
  MaxLen = 4
  GraphIdx = {4, 6, 7}
  Alpha = "path"
SPECIFICATION Spec
INVARIANT TypeInv
INVARIANT EmitState
CHECK_DEADLOCK FALSE
