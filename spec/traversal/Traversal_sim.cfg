CONSTANTS
  MaxLen = 7
  GraphIdx = {3, 4, 5, 6, 7, 9}
  Alpha = "wide"
SPECIFICATION Spec
INVARIANT TypeInv
INVARIANT EmitState
CHECK_DEADLOCK FALSE
