CONSTANTS
  MaxLen = 3
  GraphIdx = {4, 7}
  Alpha = "spell"
SPECIFICATION Spec
INVARIANT TypeInv
INVARIANT EmitState
CHECK_DEADLOCK FALSE
