---------------------------- MODULE PipeAbs ----------------------------
(* C07, PROPERTY-LEVEL specification.                                     *)
(*                                                                        *)
(* What the property says about one run of a traversal over a finite      *)
(* graph, in terms of what a client can see:                              *)
(*   - the result stream is closed after finitely many rows; without a    *)
(*     cancel the number of rows is the one the step semantics gives      *)
(*     (never fewer: a stream closed early would "terminate" by losing    *)
(*     rows); with a cancel it is at most that number;                    *)
(*   - after the close nothing of the run is left: no goroutine, no       *)
(*     temporary store;                                                   *)
(*   - a cancel (by the client, or by a limit/range whose bound is met)   *)
(*     stops the scan of the source: when much more of the source remains *)
(*     than can be in flight, the scan does not run to its end.           *)
(* Nothing here mentions channels or buffer sizes.  The observer for      *)
(* recorded runs built from these clauses is PipelineTrace.tla.           *)
(*                                                                        *)
(* This module is the generator of the runs: graphs of the three families *)
(* star(n), chain(n), bip(n,m) x programs over a step alphabet, together  *)
(* with the number of rows each program yields.  Because every vertex of  *)
(* one class of such a graph carries the same number of travelers, a      *)
(* multiset of travelers is a multiplicity per CLASS (star: centre,       *)
(* leaves; bip: left, right; chain: every vertex its own class) or per    *)
(* class of edges - exact arithmetic, evaluated by TLC for graphs far     *)
(* larger than any buffer of the engine.                                  *)
EXTENDS Integers, Sequences, FiniteSets, TLC, Json, SequencesExt

CONSTANTS Graphs,       \* name of the graph set explored (see GraphSpecs)
          MaxLen,       \* steps after the start statement
          Alpha         \* "wide" | "base": which step alphabet

VARIABLES g, prog, s
vars == <<g, prog, s>>

Emit(tag, obj) == PrintT(<<"J", tag, ToJson(obj)>>)
Sum(q) == FoldLeft(LAMBDA a, b : a + b, 0, q)
MinOf(a, b) == IF a < b THEN a ELSE b
MaxOf(a, b) == IF a > b THEN a ELSE b

------------------------------------------------------------------------
(* The volumes: 0, 1, cap-1, cap, cap+1, 2cap+1 and multiples for the    *)
(* capacities 100 / 1000 / 5000 of the engine's channels (the sizes are  *)
(* only a choice of where to look; no clause of the property mentions     *)
(* them).  star(n): n+1 vertices, n edges; chain(n): n vertices, n-1      *)
(* edges; bip(n,m): n+m vertices, n*m edges (m = 0: vertices only).       *)
G(shape, n, m) == [shape |-> shape, n |-> n, m |-> m]
GraphSpecs ==
  CASE Graphs = "quick" ->
         { G("star", 0, 0), G("star", 1, 0), G("star", 101, 0), G("star", 1001, 0), G("star", 1500, 0), G("star", 5001, 0),
           G("chain", 0, 0), G("chain", 2, 0), G("chain", 1001, 0), G("chain", 2500, 0),
           G("bip", 3, 400), G("bip", 20000, 0), G("bip", 101, 200) }
    [] Graphs = "small" ->     \* around the 100-slot channels, all programs up to three steps
         { G("star", 0, 0), G("star", 1, 0), G("star", 99, 0), G("star", 100, 0), G("star", 101, 0), G("star", 201, 0),
           G("chain", 0, 0), G("chain", 1, 0), G("chain", 2, 0), G("chain", 102, 0), G("chain", 202, 0),
           G("bip", 1, 1), G("bip", 2, 101), G("bip", 11, 10) }
    [] Graphs = "large" ->     \* around the 1000- and 5000-slot channels
         { G("star", 999, 0), G("star", 1000, 0), G("star", 1001, 0), G("star", 1103, 0), G("star", 1205, 0), G("star", 1500, 0),
           G("star", 2001, 0), G("star", 2500, 0), G("star", 4999, 0), G("star", 5000, 0), G("star", 5001, 0), G("star", 10001, 0),
           G("chain", 1000, 0), G("chain", 1001, 0), G("chain", 1002, 0), G("chain", 2002, 0), G("chain", 2204, 0), G("chain", 2205, 0),
           G("chain", 2500, 0), G("chain", 5001, 0),
           G("bip", 3, 400), G("bip", 2, 1001), G("bip", 1001, 2), G("bip", 101, 100), G("bip", 4, 5000), G("bip", 20000, 0), G("bip", 101, 200) }

------------------------------------------------------------------------
(* graph families as quotient graphs                                     *)
NC(gs)      == CASE gs.shape = "chain" -> gs.n [] OTHER -> 2                  \* vertex classes
NQ(gs)      == CASE gs.shape = "chain" -> MaxOf(gs.n - 1, 0) [] OTHER -> 1    \* edge classes
Size(gs, c) == CASE gs.shape = "star"  -> IF c = 1 THEN 1 ELSE gs.n
                 [] gs.shape = "bip"   -> IF c = 1 THEN gs.n ELSE gs.m
                 [] gs.shape = "chain" -> 1
VLabel(gs, c) == CASE gs.shape = "star" -> IF c = 1 THEN "C" ELSE "L"
                   [] gs.shape = "bip"  -> IF c = 1 THEN "L" ELSE "R"
                   [] gs.shape = "chain" -> "L"
\* edge class j: every vertex of class `from` has `od` edges into class `to`,
\* every vertex of class `to` has `id` edges from class `from`
QE(gs, j) == CASE gs.shape = "star"  -> [from |-> 1, to |-> 2, od |-> gs.n, id |-> 1]
               [] gs.shape = "bip"   -> [from |-> 1, to |-> 2, od |-> gs.m, id |-> gs.n]
               [] gs.shape = "chain" -> [from |-> j, to |-> j + 1, od |-> 1, id |-> 1]
InQ(gs, c)  == CASE gs.shape = "chain" -> IF c > 1 THEN {c - 1} ELSE {}
                 [] OTHER -> IF c = 2 THEN {1} ELSE {}
OutQ(gs, c) == CASE gs.shape = "chain" -> IF c < gs.n THEN {c} ELSE {}
                 [] OTHER -> IF c = 1 THEN {1} ELSE {}
NEdges(gs, j) == Size(gs, QE(gs, j).from) * QE(gs, j).od
SumOver(S, F(_)) == LET RECURSIVE R(_)
                       R(T) == IF T = {} THEN 0 ELSE LET x == CHOOSE x \in T : TRUE IN F(x) + R(T \ {x})
                   IN R(S)

TotalV(gs, m) == Sum([c \in 1..NC(gs) |-> Size(gs, c) * m[c]])
TotalE(gs, m) == Sum([j \in 1..NQ(gs) |-> NEdges(gs, j) * m[j]])
Total(gs, ty, m) == IF ty = "v" THEN TotalV(gs, m) ELSE TotalE(gs, m)

\* movement of a multiset
VOut(gs, m) == [d \in 1..NC(gs) |-> SumOver(InQ(gs, d),  LAMBDA j : QE(gs, j).id * m[QE(gs, j).from])]
VIn(gs, m)  == [c \in 1..NC(gs) |-> SumOver(OutQ(gs, c), LAMBDA j : QE(gs, j).od * m[QE(gs, j).to])]
VOutE(gs, m) == [j \in 1..NQ(gs) |-> m[QE(gs, j).from]]
VInE(gs, m)  == [j \in 1..NQ(gs) |-> m[QE(gs, j).to]]
EOut(gs, m) == [d \in 1..NC(gs) |-> SumOver(InQ(gs, d),  LAMBDA j : QE(gs, j).id * m[j])]
EIn(gs, m)  == [c \in 1..NC(gs) |-> SumOver(OutQ(gs, c), LAMBDA j : QE(gs, j).od * m[j])]
Plus(a, b) == [i \in DOMAIN a |-> a[i] + b[i]]

------------------------------------------------------------------------
(* steps.  kind = the stage kind of Pipeline.tla that executes the step   *)
Mov(op)   == [op |-> op, labels |-> <<>>]
Steps ==
  LET base == { Mov("out"), Mov("in"), Mov("both"), Mov("outE"), Mov("inE"), Mov("bothE"),
                [op |-> "hasLabel", labels |-> <<"L">>], [op |-> "hasLabel", labels |-> <<"nolabel">>],
                [op |-> "as", name |-> "a"], [op |-> "unwind", field |-> "tags"],
                [op |-> "distinct", fields |-> <<>>], [op |-> "count"],
                [op |-> "aggregate", aggs |-> <<[name |-> "n", t |-> "count"]>>],
                [op |-> "aggregate", aggs |-> <<[name |-> "n", t |-> "count"], [name |-> "t", t |-> "term", field |-> "_label", size |-> 0]>>],
                \* an aggregation the engine refuses while rows are still arriving (histogram without an interval):
                \* the step may answer with nothing, but the traversal ends like any other
                [op |-> "aggregate", aggs |-> <<[name |-> "z", t |-> "histogram", field |-> "k", interval |-> 0]>>],
                [op |-> "limit", n |-> 3], [op |-> "range", a |-> 1, b |-> 4] }
      wide == { [op |-> "fields", fields |-> <<"k">>], [op |-> "path"], [op |-> "skip", n |-> 2], [op |-> "limit", n |-> 0],
                [op |-> "limit", n |-> 150], [op |-> "distinct", fields |-> <<"_label">>],
                [op |-> "aggregate", aggs |-> <<[name |-> "h", t |-> "histogram", field |-> "k", interval |-> 2],
                                                 [name |-> "p", t |-> "percentile", field |-> "k", percents |-> <<50>>],
                                                 [name |-> "f", t |-> "field", field |-> "_data"],
                                                 [name |-> "y", t |-> "type", field |-> "k"]>>] }
  IN IF Alpha = "wide" THEN base \cup wide ELSE base

\* V("@1"): the vertices of class 1 looked up by id (the centre of a star, the head of a chain, the left side of
\* a bipartite graph) - a source that is not a scan: nothing stops it but the end of its id list
Starts == { <<[op |-> "V", ids |-> <<>>]>>, <<[op |-> "E", ids |-> <<>>]>>,
            <<[op |-> "V", ids |-> <<>>], [op |-> "hasLabel", labels |-> <<"L">>]>>,
            <<[op |-> "V", ids |-> <<"@1">>]>> }

Ones(n) == [i \in 1..n |-> 1]
Exact(ty, m) == [ty |-> ty, m |-> m, trunc |-> FALSE, lo |-> Total(g, ty, m), hi |-> Total(g, ty, m),
                 flows |-> <<>>, kinds |-> <<>>, bothmax |-> 0, mono |-> TRUE, need |-> -1, tags |-> ty = "v"]
StartState(p) ==
  LET st0 == CASE p[1].op = "E" -> Exact("e", Ones(NQ(g)))
               [] p[1].ids # <<>> -> Exact("v", [c \in 1..NC(g) |-> IF c = 1 THEN 1 ELSE 0])
               [] Len(p) = 2     -> Exact("v", [c \in 1..NC(g) |-> IF VLabel(g, c) = "L" THEN 1 ELSE 0])
               [] OTHER          -> Exact("v", Ones(NC(g)))
  IN [st0 EXCEPT !.flows = <<st0.hi>>, !.kinds = <<IF p[1].ids # <<>> THEN "source.ids" ELSE IF Len(p) = 2 THEN "source.index" ELSE "source">>]

\* which steps apply to which row type
Applies(x, ty) ==
  CASE x.op \in {"outE", "inE", "bothE"} -> ty = "v"
    [] x.op \in {"out", "in", "both", "hasLabel", "as", "unwind", "distinct", "fields", "path", "aggregate"} -> ty \in {"v", "e"}
    [] OTHER -> TRUE     \* count, limit, skip, range

Labels(ty, m) == IF ty = "v" THEN { VLabel(g, c) : c \in { c \in 1..NC(g) : Size(g, c) * m[c] > 0 } }
                 ELSE IF TotalE(g, m) > 0 THEN {"e"} ELSE {}

\* the rows of aggregate(): count -> 1 row; term -> one row per value; field(_data) -> one per key of the data (k, tags | w);
\* type -> one per type name seen; histogram(k, 2) over k = i % 7 -> buckets 0,2,4,6 that are hit; percentile -> one per percent.
\* Only used on exact states; after a truncation the bounds below are taken.
AggRows(a, ty, m) ==
  CASE a.t = "count" -> 1
    [] a.t = "term"  -> Cardinality(Labels(ty, m))
    [] OTHER -> -1     \* data dependent: bounds only

Apply(x) ==
  LET ty == s.ty  m == s.m
      \* per-direction volumes of a both step
      din  == IF x.op \in {"both", "bothE"} /\ ty = "v" THEN (IF x.op = "both" THEN TotalV(g, VOut(g, m)) ELSE TotalE(g, VInE(g, m)))
              ELSE IF x.op = "both" THEN TotalV(g, EIn(g, m)) ELSE 0
      dout == IF x.op \in {"both", "bothE"} /\ ty = "v" THEN (IF x.op = "both" THEN TotalV(g, VIn(g, m)) ELSE TotalE(g, VOutE(g, m)))
              ELSE IF x.op = "both" THEN TotalV(g, EOut(g, m)) ELSE 0
      \* multiset transformers: [ty, m, rowwise (1:1), kind]
      t == CASE x.op = "out"  -> IF ty = "v" THEN [ty |-> "v", m |-> VOut(g, m), kind |-> "lookup2"] ELSE [ty |-> "v", m |-> EOut(g, m), kind |-> "lookup2"]
             [] x.op = "in"   -> IF ty = "v" THEN [ty |-> "v", m |-> VIn(g, m), kind |-> "lookup1"] ELSE [ty |-> "v", m |-> EIn(g, m), kind |-> "lookup2"]
             [] x.op = "both" -> IF ty = "v" THEN [ty |-> "v", m |-> Plus(VOut(g, m), VIn(g, m)), kind |-> "both"]
                                 ELSE [ty |-> "v", m |-> Plus(EOut(g, m), EIn(g, m)), kind |-> "both"]
             [] x.op = "outE" -> [ty |-> "e", m |-> VOutE(g, m), kind |-> "lookup1"]
             [] x.op = "inE"  -> [ty |-> "e", m |-> VInE(g, m), kind |-> "lookup1"]
             [] x.op = "bothE" -> [ty |-> "e", m |-> Plus(VOutE(g, m), VInE(g, m)), kind |-> "both"]
             [] x.op = "hasLabel" -> IF ty = "v" THEN [ty |-> "v", m |-> [c \in 1..NC(g) |-> IF VLabel(g, c) = x.labels[1] THEN m[c] ELSE 0], kind |-> "filter"]
                                     ELSE [ty |-> "e", m |-> [j \in 1..NQ(g) |-> 0], kind |-> "filter"]
             \* every vertex carries tags = [t1, t2]: unwind doubles the rows - once; afterwards (and after fields(k),
             \* and on edges) the field is not a list and unwind keeps one row per row
             [] x.op = "unwind" -> IF ty = "v" /\ s.tags THEN [ty |-> "v", m |-> [c \in 1..NC(g) |-> 2 * m[c]], kind |-> "simple.fan"]
                                   ELSE [ty |-> ty, m |-> m, kind |-> "simple"]
             [] x.op = "distinct" /\ x.fields = <<>> -> [ty |-> ty, m |-> [i \in DOMAIN m |-> MinOf(m[i], 1)], kind |-> "distinct"]
             [] x.op = "path" -> [ty |-> "o", m |-> <<>>, kind |-> "simple"]
             [] OTHER -> [ty |-> ty, m |-> m, kind |-> "simple"]      \* as, fields: one row per row
      rowwise == x.op \in {"as", "fields", "path"} \/ (x.op = "unwind" /\ ~(ty = "v" /\ s.tags))
      nt == IF t.ty = "o" THEN s.hi ELSE Total(g, t.ty, t.m)
      res ==
        CASE x.op \in {"out", "in", "both", "outE", "inE", "bothE", "hasLabel", "unwind", "as", "fields", "path"} \/ (x.op = "distinct" /\ x.fields = <<>>) ->
               IF ~s.trunc THEN [s EXCEPT !.ty = t.ty, !.m = t.m, !.lo = nt, !.hi = nt]
               ELSE IF rowwise THEN [s EXCEPT !.ty = t.ty, !.m = t.m]
               ELSE IF x.op = "distinct" THEN [s EXCEPT !.m = t.m, !.lo = MinOf(s.lo, 1), !.hi = MinOf(s.hi, nt)]
               ELSE [s EXCEPT !.ty = t.ty, !.m = t.m, !.lo = 0, !.hi = nt]
          [] x.op = "distinct" ->   \* distinct(_label): one row per label; the multiset is no longer class-uniform
               LET nl == Cardinality(Labels(ty, m)) IN
               [s EXCEPT !.trunc = TRUE, !.lo = IF s.trunc THEN MinOf(s.lo, 1) ELSE nl, !.hi = MinOf(s.hi, nl)]
          [] x.op = "count" -> [s EXCEPT !.ty = "o", !.m = <<>>, !.trunc = FALSE, !.lo = 1, !.hi = 1]
          [] x.op = "aggregate" ->
               LET rs == [i \in DOMAIN x.aggs |-> AggRows(x.aggs[i], ty, m)]
                   dd == \E i \in DOMAIN rs : rs[i] < 0
                   \* data-dependent aggregations: histogram(k,2) <= 4 buckets, percentile 1, field(_data) <= 2, type <= 1
                   up == Sum([i \in DOMAIN x.aggs |-> CASE x.aggs[i].t = "count" -> 1 [] x.aggs[i].t = "term" -> MinOf(Cardinality(Labels(ty, m)), s.hi)
                                                        [] x.aggs[i].t = "histogram" -> MinOf(4, s.hi) [] x.aggs[i].t = "field" -> MinOf(2, s.hi)
                                                        [] OTHER -> MinOf(1, s.hi)])
                   dn == Sum([i \in DOMAIN x.aggs |-> CASE x.aggs[i].t = "count" -> 1 [] x.aggs[i].t \in {"term", "type", "field"} -> MinOf(1, s.lo) [] OTHER -> 0])
                   refused == \E i \in DOMAIN x.aggs : x.aggs[i].t = "histogram" /\ x.aggs[i].interval = 0
               IN IF refused THEN [s EXCEPT !.ty = "o", !.m = <<>>, !.trunc = FALSE, !.lo = 0, !.hi = up]
                  ELSE IF ~s.trunc /\ ~dd THEN [s EXCEPT !.ty = "o", !.m = <<>>, !.lo = Sum(rs), !.hi = Sum(rs)]
                  ELSE [s EXCEPT !.ty = "o", !.m = <<>>, !.trunc = FALSE, !.lo = dn, !.hi = up]
          [] x.op = "limit" -> [s EXCEPT !.trunc = s.trunc \/ s.hi > x.n, !.lo = MinOf(s.lo, x.n), !.hi = MinOf(s.hi, x.n)]
          [] x.op = "skip"  -> [s EXCEPT !.trunc = s.trunc \/ (x.n > 0 /\ s.hi > 0), !.lo = MaxOf(s.lo - x.n, 0), !.hi = MaxOf(s.hi - x.n, 0)]
          [] x.op = "range" -> [s EXCEPT !.trunc = s.trunc \/ (s.hi > 0 /\ (x.a > 0 \/ s.hi > x.b)),
                                         !.lo = MaxOf(MinOf(s.lo, x.b) - x.a, 0), !.hi = MaxOf(MinOf(s.hi, x.b) - x.a, 0)]
      kind == CASE x.op = "count" -> "count"
                [] x.op = "aggregate" -> IF \E i \in DOMAIN x.aggs : x.aggs[i].t = "histogram" /\ x.aggs[i].interval = 0 THEN "agg.refused" ELSE "agg"
                [] x.op \in {"limit", "range"} -> "limit"
                [] x.op = "skip" -> "simple" [] x.op = "distinct" -> "distinct" [] OTHER -> t.kind
  IN [res EXCEPT !.flows = Append(s.flows, res.hi), !.kinds = Append(s.kinds, kind),
                 !.tags = IF x.op \in {"out", "in", "both"} THEN TRUE
                          ELSE IF x.op \in {"unwind", "fields", "outE", "inE", "bothE"} THEN FALSE ELSE s.tags,
                 !.bothmax = MaxOf(s.bothmax, MaxOf(din, dout)),
                 \* mono: so far every element of the source scan has produced at least one row;
                 \* need: a limit/range reached through such steps is satisfied (calls cancel) once this many
                 \* elements of the source have been scanned
                 !.mono = s.mono /\ x.op \in {"as", "fields", "path", "unwind"},
                 !.need = IF s.need = -1 /\ s.mono /\ x.op \in {"limit", "range"} /\ s.hi > (IF x.op = "limit" THEN x.n ELSE x.b)
                          THEN (IF x.op = "limit" THEN x.n ELSE x.b) + 1 ELSE s.need]

Init == /\ g \in GraphSpecs
        /\ \E p \in Starts : prog = p /\ s = StartState(p)

NSteps == Len(s.kinds) - 1
Next == /\ NSteps < MaxLen
        /\ \E x \in Steps :
             /\ Applies(x, s.ty)
             /\ s.ty # "o" \/ x.op \in {"count", "limit", "skip", "range"}
             /\ prog' = Append(prog, x)
             /\ s' = Apply(x)
        /\ UNCHANGED g

Spec == Init /\ [][Next]_vars

\* one case per state
CaseInv == Emit("case", [g |-> g, prog |-> prog, kinds |-> s.kinds, flows |-> s.flows, lo |-> s.lo, hi |-> s.hi,
                         src |-> s.flows[1], bothmax |-> s.bothmax, mono |-> s.mono, need |-> s.need, exact |-> ~s.trunc])
Bound == NSteps <= MaxLen
=======================================================================
