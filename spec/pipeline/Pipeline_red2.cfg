CONSTANTS
  CapStep = 2
  CapQuery = 2
  CapBoth = 2
  CapAgg = 2
  CapRes = 2
  Kinds = {"distinct", "lookup1", "count", "limit", "both", "agg"}
  MaxStages = 3
  Ns = {1, 4, 6}
  Fs = {1, 2, 3}
  Ks = {99, 1}
  LimitL = 1
  AggA = 2
  BothDrain = "concurrent"
  MaxWork = 30
  Reduce = TRUE
  Survey = FALSE
INIT Init
NEXT Next
INVARIANT TypeOK
INVARIANT Released
INVARIANT RowsOK
