CONSTANTS
  CapStep = 2
  CapQuery = 2
  CapBoth = 2
  CapAgg = 2
  CapRes = 2
  Kinds = {"simple", "drop", "distinct", "lookup1", "lookup2", "count", "limit", "both", "agg"}
  MaxStages = 2
  Ns = {0, 1, 2, 3}
  Fs = {1, 0, 2}
  Ks = {99, 0, 1}
  LimitL = 1
  AggA = 2
  BothDrain = "concurrent"
  MaxWork = 3
  Reduce = FALSE
  Survey = FALSE
SPECIFICATION Spec
INVARIANT TypeOK
INVARIANT Released
INVARIANT RowsOK
PROPERTY Termination
PROPERTY CancelStops
PROPERTY AllStop
