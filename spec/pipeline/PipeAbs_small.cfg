CONSTANTS
  Graphs = "small"
  MaxLen = 3
  Alpha = "base"
SPECIFICATION Spec
INVARIANT CaseInv
INVARIANT Bound
CHECK_DEADLOCK FALSE
