---------------------------- MODULE PipeNet ----------------------------
(* C07: the static part of the implementation-shaped model - how a       *)
(* compiled traversal is laid out as goroutines and bounded channels      *)
(* (engine/pipeline/pipes.go, engine/core/processors.go,                  *)
(* kvgraph/graph.go).  Pipeline.tla adds the dynamics; PipelineTrace.tla  *)
(* uses the same layout with the real capacities to bound what can be in  *)
(* flight between the source scan and the client.                         *)
EXTENDS Integers, Sequences, FiniteSets, TLC, Json, SequencesExt

CONSTANTS CapStep,    \* channels between stages (pipeline.Start bufsize; 5000 in Run)
          CapQuery,   \* queryChan of a lookup and the channels inside kvgraph (100)
          CapBoth,    \* chanIn[i] / chanOut[i] of both.Process (1000)
          CapAgg,     \* one channel per aggregation in aggregate.Process (1000)
          CapRes,     \* result channel of pipeline.Run (5000)
          LimitL,     \* bound of limit stages
          AggA,       \* aggregations per aggregate stage
          BothDrain   \* "after" | "concurrent"

Emit(tag, obj) == PrintT(<<"J", tag, ToJson(obj)>>)
Never == 99

------------------------------------------------------------------------
(* network construction                                                  *)
NoProc == [k |-> "none", role |-> "", in |-> 0, out |-> 0, outs |-> <<>>, drains |-> <<>>, f |-> 0,
           closes |-> TRUE, tmp |-> FALSE, cleanup |-> FALSE, waits |-> {}, total |-> 0, r |-> 0, l |-> 0, stage |-> 0]

EmptyNet == [procs |-> <<>>, caps |-> <<>>]
AddCh(nt, cap) == [nt EXCEPT !.caps = Append(@, cap)]
LastCh(nt) == Len(nt.caps)
AddP(nt, p) == [nt EXCEPT !.procs = Append(@, p)]
LastP(nt) == Len(nt.procs)

MapP(role, sg, i, o, f, closes) == [NoProc EXCEPT !.k = "map", !.role = role, !.stage = sg, !.in = i, !.out = o, !.f = f, !.closes = closes]

\* a lookup stage: request goroutine -> queryChan -> nb backend goroutine(s) -> o -> output goroutine.
\* kvgraph.GetInChannel / GetOutEdgeChannel / GetInEdgeChannel have one backend goroutine (nb = 1),
\* GetOutChannel and GetVertexChannel have two with another 100-slot channel between them (nb = 2).
Lookup(nt, role, sg, ic, oc, nb, f, closes) ==
  LET n1 == AddCh(nt, CapQuery)  q == LastCh(n1)
      n2 == AddCh(n1, CapQuery)  o == LastCh(n2)
      n3 == AddP(n2, MapP(role \o ".request", sg, ic, q, 1, TRUE))
      n4 == IF nb = 1 THEN AddP(n3, MapP(role \o ".backend", sg, q, o, f, TRUE))
            ELSE LET m1 == AddCh(n3, CapQuery)  v == LastCh(m1)
                     m2 == AddP(m1, MapP(role \o ".backend1", sg, q, v, f, TRUE))
                 IN AddP(m2, MapP(role \o ".backend2", sg, v, o, 1, TRUE))
  IN AddP(n4, MapP(role \o ".output", sg, o, oc, 1, closes))

\* one stage: returns the extended network; the stage reads channel ic and writes the new channel LastCh
Stage(nt0, kind, sg, ic, c) ==
  LET nt == AddCh(nt0, CapStep)   oc == LastCh(nt)   \* the stage's output channel
  IN CASE kind = "simple"   -> [net |-> AddP(nt, MapP("simple", sg, ic, oc, 1, TRUE)), oc |-> oc]
       [] kind = "drop"     -> [net |-> AddP(nt, MapP("filter", sg, ic, oc, 0, TRUE)), oc |-> oc]
       [] kind = "distinct" -> [net |-> AddP(nt, [MapP("distinct", sg, ic, oc, -1, TRUE) EXCEPT !.tmp = TRUE]), oc |-> oc]
       [] kind = "lookup1"  -> [net |-> Lookup(nt, "lookup1", sg, ic, oc, 1, c.f, TRUE), oc |-> oc]
       [] kind = "lookup2"  -> [net |-> Lookup(nt, "lookup2", sg, ic, oc, 2, c.f, TRUE), oc |-> oc]
       [] kind = "count"    -> [net |-> AddP(nt, [NoProc EXCEPT !.k = "collect", !.role = "count", !.stage = sg, !.in = ic, !.out = oc, !.r = 1]), oc |-> oc]
       [] kind = "limit"    -> [net |-> AddP(nt, [NoProc EXCEPT !.k = "limit", !.role = "limit", !.stage = sg, !.in = ic, !.out = oc, !.l = LimitL]), oc |-> oc]
       [] kind = "both"     ->
            LET a1 == AddCh(nt, CapBoth)  i1 == LastCh(a1)
                a2 == AddCh(a1, CapBoth)  i2 == LastCh(a2)
                a3 == AddCh(a2, CapBoth)  o1 == LastCh(a3)
                a4 == AddCh(a3, CapBoth)  o2 == LastCh(a4)
                conc == BothDrain = "concurrent"
                b1 == Lookup(a4, "both.in", sg, i1, o1, 1, c.f, TRUE)
                b2 == Lookup(b1, "both.out", sg, i2, o2, 2, c.f, TRUE)
                b3 == AddP(b2, [NoProc EXCEPT !.k = "tee", !.role = "both.feeder", !.stage = sg, !.in = ic, !.out = oc,
                                              !.outs = <<i1, i2>>, !.drains = IF conc THEN <<>> ELSE <<o1, o2>>,
                                              !.closes = ~conc])
                feeder == LastP(b3)
            IN IF ~conc THEN [net |-> b3, oc |-> oc]
               ELSE LET d1 == AddP(b3, MapP("both.drain1", sg, o1, oc, 1, FALSE))
                        d2 == AddP(d1, MapP("both.drain2", sg, o2, oc, 1, FALSE))
                    IN [net |-> AddP(d2, [NoProc EXCEPT !.k = "waiter", !.role = "both.wait", !.stage = sg, !.out = oc,
                                                        !.waits = {feeder, feeder + 1, feeder + 2}]), oc |-> oc]
       [] kind = "agg"      ->
            LET RECURSIVE Chans(_, _)
                Chans(n, j) == IF j = 0 THEN n ELSE Chans(AddCh(n, CapAgg), j - 1)
                a1 == Chans(nt, AggA)
                ach == [j \in 1..AggA |-> Len(nt.caps) + j]
                a2 == AddP(a1, [NoProc EXCEPT !.k = "tee", !.role = "agg.feeder", !.stage = sg, !.in = ic, !.out = oc,
                                              !.outs = ach, !.closes = FALSE])
                feeder == LastP(a2)
                RECURSIVE Consumers(_, _)
                Consumers(n, j) == IF j > AggA THEN n
                              ELSE Consumers(AddP(n, [NoProc EXCEPT !.k = "collect", !.role = "agg.consumer", !.stage = sg, !.in = ach[j],
                                                               !.out = oc, !.r = 1, !.closes = FALSE]), j + 1)
                a3 == Consumers(a2, 1)
            IN [net |-> AddP(a3, [NoProc EXCEPT !.k = "waiter", !.role = "agg.wait", !.stage = sg, !.out = oc,
                                                !.waits = feeder..(feeder + AggA)]), oc |-> oc]

RECURSIVE Stages(_, _, _, _)
Stages(nt, c, i, ic) ==
  IF i > Len(c.stages) THEN [net |-> nt, oc |-> ic]
  ELSE LET s == Stage(nt, c.stages[i], i, ic, c) IN Stages(s.net, c, i + 1, s.oc)

\* source (V() / E()): kvgraph scan goroutine -> 100-slot channel -> LookupVerts goroutine -> first stage channel;
\* after the last stage: the goroutine of pipeline.Run copies to the result channel, calls Cleanup and closes it.
Compile(c) ==
  LET n1 == AddCh(EmptyNet, CapQuery)  lst == LastCh(n1)
      n2 == AddCh(n1, CapStep)         first == LastCh(n2)
      n3 == AddP(n2, [NoProc EXCEPT !.k = "gen", !.role = "source.scan", !.out = lst, !.total = c.n])
      n4 == AddP(n3, MapP("source.forward", 0, lst, first, 1, TRUE))
      s  == Stages(n4, c, 1, first)
      n5 == AddCh(s.net, CapRes)       res == LastCh(n5)
      n6 == AddP(n5, [MapP("run.convert", Len(c.stages) + 1, s.oc, res, 1, TRUE) EXCEPT !.cleanup = TRUE])
  IN AddP(n6, [NoProc EXCEPT !.k = "sink", !.role = "sink", !.in = res])

------------------------------------------------------------------------
(* the rows an uncancelled run delivers: arithmetic of the stages        *)
RECURSIVE Rows(_, _, _)
Rows(c, i, x) ==   \* [lo, hi] after stages i..Len
  IF i > Len(c.stages) THEN x
  ELSE LET kd == c.stages[i]
           y == CASE kd \in {"simple"}            -> x
                  [] kd = "drop"                  -> [lo |-> 0, hi |-> 0]
                  [] kd = "distinct"              -> [lo |-> 0, hi |-> x.hi]   \* which rows are equal is not modelled
                  [] kd \in {"lookup1", "lookup2"} -> [lo |-> x.lo * c.f, hi |-> x.hi * c.f]
                  [] kd = "both"                  -> [lo |-> 2 * x.lo * c.f, hi |-> 2 * x.hi * c.f]
                  [] kd = "count"                 -> [lo |-> 1, hi |-> 1]
                  [] kd = "agg"                   -> [lo |-> AggA, hi |-> AggA]
                  [] kd = "limit"                 -> [lo |-> IF x.lo < LimitL THEN x.lo ELSE LimitL,
                                                      hi |-> IF x.hi < LimitL THEN x.hi ELSE LimitL]
       IN Rows(c, i + 1, y)
Expected(c) == Rows(c, 1, [lo |-> c.n, hi |-> c.n])


\* everything that can sit between the source scan and the client: every channel full and every goroutine holding one item
InFlight(stages) == LET nt == Compile([stages |-> stages, n |-> 0, f |-> 1, k |-> Never])
                    IN FoldLeft(LAMBDA a, b : a + b, 0, nt.caps) + Len(nt.procs)
=======================================================================
