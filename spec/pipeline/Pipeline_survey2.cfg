CONSTANTS
  CapStep = 2
  CapQuery = 2
  CapBoth = 2
  CapAgg = 2
  CapRes = 2
  Kinds = {"both", "simple", "count"}
  MaxStages = 2
  Ns = {0, 1, 2, 4, 6, 8, 10, 11, 12, 13, 14, 15, 16, 18, 20}
  Fs = {1, 0, 2, 3}
  Ks = {99, 1}
  LimitL = 1
  AggA = 2
  BothDrain = "after"
  MaxWork = 1000
  Reduce = TRUE
  Survey = TRUE
INIT Init
NEXT Next
INVARIANT TypeOK
INVARIANT RowsOK
INVARIANT SurveyInv
