CONSTANTS
  CapStep = 1
  CapQuery = 1
  CapBoth = 1
  CapAgg = 1
  CapRes = 1
  Kinds = {"both"}
  MaxStages = 1
  Ns = {8}
  Fs = {1}
  Ks = {99}
  LimitL = 1
  AggA = 2
  BothDrain = "after"
  MaxWork = 1000
  Reduce = TRUE
  Survey = FALSE
INIT Init
NEXT Next
INVARIANT TypeOK
INVARIANT Released
INVARIANT RowsOK
