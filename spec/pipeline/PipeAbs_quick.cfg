CONSTANTS
  Graphs = "quick"
  MaxLen = 2
  Alpha = "base"
SPECIFICATION Spec
INVARIANT CaseInv
INVARIANT Bound
CHECK_DEADLOCK FALSE
