CONSTANTS
  GraphSpecs = {[shape |-> "star", n |-> 1500, m |-> 0], [shape |-> "chain", n |-> 2500, m |-> 0], [shape |-> "bip", n |-> 100, m |-> 200], [shape |-> "star", n |-> 0, m |-> 0], [shape |-> "chain", n |-> 0, m |-> 0],[shape |-> "chain", n |-> 1, m |-> 0]}
  MaxLen = 2
  Alpha = "wide"
SPECIFICATION Spec
INVARIANT CaseInv
INVARIANT Bound
