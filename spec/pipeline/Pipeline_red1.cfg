CONSTANTS
  CapStep = 1
  CapQuery = 1
  CapBoth = 1
  CapAgg = 1
  CapRes = 1
  Kinds = {"distinct", "lookup1", "count", "limit", "both", "agg"}
  MaxStages = 3
  Ns = {1, 4}
  Fs = {1, 2}
  Ks = {99, 1}
  LimitL = 1
  AggA = 2
  BothDrain = "concurrent"
  MaxWork = 16
  Reduce = TRUE
  Survey = FALSE
INIT Init
NEXT Next
INVARIANT TypeOK
INVARIANT Released
INVARIANT RowsOK
