CONSTANTS
  CapStep = 1
  CapQuery = 1
  CapBoth = 1
  CapAgg = 1
  CapRes = 1
  Kinds = {"simple", "drop", "distinct", "lookup1", "lookup2", "count", "limit", "both", "agg"}
  MaxStages = 2
  Ns = {0, 1, 2, 3, 4}
  Fs = {1, 0, 2, 3}
  Ks = {99, 0, 1, 2}
  LimitL = 1
  AggA = 2
  BothDrain = "concurrent"
  MaxWork = 4
  Reduce = FALSE
  Survey = FALSE
INIT Init
NEXT Next
INVARIANT TypeOK
INVARIANT Released
INVARIANT RowsOK
