CONSTANTS
  CapStep = 1
  CapQuery = 1
  CapBoth = 1
  CapAgg = 1
  CapRes = 1
  Kinds = {"both", "simple", "count"}
  MaxStages = 2
  Ns = {0, 1, 2, 3, 4, 5, 6, 7, 8, 9, 10, 11, 12}
  Fs = {1, 0, 2, 3}
  Ks = {99, 0, 1}
  LimitL = 1
  AggA = 2
  BothDrain = "after"
  MaxWork = 1000
  Reduce = TRUE
  Survey = TRUE
INIT Init
NEXT Next
INVARIANT TypeOK
INVARIANT RowsOK
INVARIANT SurveyInv
