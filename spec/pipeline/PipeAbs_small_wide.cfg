CONSTANTS
  Graphs = "small"
  MaxLen = 2
  Alpha = "wide"
SPECIFICATION Spec
INVARIANT CaseInv
INVARIANT Bound
CHECK_DEADLOCK FALSE
