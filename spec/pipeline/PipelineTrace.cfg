CONSTANTS
  CapStep = 5000
  CapQuery = 100
  CapBoth = 1000
  CapAgg = 1000
  CapRes = 5000
  CapIndexScan = 1000
  LimitL = 1
  AggA = 2
  BothDrain = "concurrent"
INIT TInit
NEXT TNext
INVARIANT Verdict
INVARIANT Consumed
CHECK_DEADLOCK FALSE
