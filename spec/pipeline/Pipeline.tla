---------------------------- MODULE Pipeline ----------------------------
(* C07, IMPLEMENTATION-SHAPED model of the traversal engine's stage       *)
(* network (engine/pipeline/pipes.go, engine/core/processors.go,          *)
(* kvgraph/graph.go): one TLA+ process per goroutine, one bounded counter  *)
(* per Go channel.  Travelers carry no data here - only how many of them   *)
(* sit in which channel matters for termination.                           *)
(*                                                                         *)
(* A configuration (chosen in Init, so that one TLC run covers a whole     *)
(* family) is  [stages, n, f, k]:                                          *)
(*   stages  sequence of stage kinds placed after the source               *)
(*   n       number of elements the source scan yields                     *)
(*   f       fan-out of every lookup (rows per input row)                  *)
(*   k       the sink cancels the client context once it has received k    *)
(*           rows (Never = 99: never). After the cancel the sink keeps      *)
(*           draining                                                      *)
(*           the result channel - that is what server/api.go:Traversal     *)
(*           does with pipeline.Run's channel.                             *)
(* `Compile` turns a configuration into a static network of goroutines and *)
(* channels; the goroutine kinds are                                       *)
(*   gen      kvgraph.GetVertexList/GetEdgeList: polls ctx before every    *)
(*            element, sends it, closes its channel at the end             *)
(*   map      `for t := range in { out <- g(t) ... }` with a fixed number  *)
(*            of sends per input (1 = forwarding goroutine, f = backend    *)
(*            scan of a lookup, 0 = filter that drops, -1 = distinct():    *)
(*            0 or 1 and a temporary store opened at goroutine start)      *)
(*   tee      the goroutine of both.Process / the broadcasting goroutine   *)
(*            of aggregate.Process: every input is sent to outs[1],        *)
(*            outs[2], ... in turn; when the input is exhausted the outs   *)
(*            are closed and ONLY THEN the channels `drains` are copied,   *)
(*            one after the other, to `out` (both.Process as written)      *)
(*   collect  consumes its whole input, then emits r rows (count(), one    *)
(*            aggregation of aggregate())                                  *)
(*   limit    Limit.Process / Range.Process: forwards the first L rows,    *)
(*            calls cancel() when row L+1 arrives, keeps consuming         *)
(*   waiter   closes `out` when a set of goroutines has finished           *)
(*            (aggregate's g.Wait goroutine)                               *)
(*   sink     the client                                                   *)
(* BothDrain = "after" is both.Process of the pinned tree; "concurrent" is *)
(* the shape in which the two sub-stage outputs are copied to `out` while  *)
(* the inputs are still being fed.                                         *)
EXTENDS PipeNet

CONSTANTS Kinds,      \* stage kinds explored
          MaxStages,  \* stages after the source
          Ns, Fs, Ks, \* sets of n, f, k explored
          MaxWork,    \* bound on the rows entering all stages together (keeps the interleavings tractable)
          Reduce,     \* TRUE: partial-order reduction (see Next)
          Survey      \* TRUE: stuck states are reported (Emit) instead of being TLC deadlocks

VARIABLES ci, cnt, closed, st, cancelC, cancelL, temp, seen, sinkClosed
vars == <<ci, cnt, closed, st, cancelC, cancelL, temp, seen, sinkClosed>>

------------------------------------------------------------------------
SeqSet(q) == {q[i] : i \in DOMAIN q}
SeqSub(S, n) == UNION {[1..m -> S] : m \in 0..n}

Configs == { [stages |-> s, n |-> n, f |-> f, k |-> k] : s \in SeqSub(Kinds, MaxStages), n \in Ns, f \in Fs, k \in Ks }
\* configurations that differ only in unused parameters are explored once
\* rows entering stage i, i+1, ... (a both stage runs two lookups: counted three times)
RECURSIVE Work(_, _, _)
Work(c, i, x) ==
  IF i > Len(c.stages) THEN x
  ELSE LET kd == c.stages[i] IN
       (IF kd = "both" THEN 3 * x ELSE x) + Work(c, i + 1, Rows([c EXCEPT !.stages = <<kd>>], 1, [lo |-> x, hi |-> x]).hi)
Relevant(c) ==
  /\ Work(c, 1, c.n) <= MaxWork
  /\ (c.f # CHOOSE x \in Fs : TRUE) => (SeqSet(c.stages) \cap {"lookup1", "lookup2", "both"} # {})
  /\ (c.k <= Expected(c).hi \/ c.k = Never)
\* constant-level: TLC evaluates these once; a state only holds the index ci of its configuration
CfgSeq == TLCEval(SetToSeq({ c \in Configs : Relevant(c) }))
Nets   == TLCEval([i \in DOMAIN CfgSeq |-> Compile(CfgSeq[i])])
cfg == CfgSeq[ci]
net == Nets[ci]

Procs == DOMAIN net.procs
Chs   == DOMAIN net.caps
P(p)  == net.procs[p]
Cancelled == cancelC \/ cancelL

CanSend(c) == cnt[c] < net.caps[c]
CanRecv(c) == cnt[c] > 0
Drained(c) == closed[c] /\ cnt[c] = 0
Snd(c) == [cnt EXCEPT ![c] = @ + 1]
Rcv(c) == [cnt EXCEPT ![c] = @ - 1]
Pc(p, pc, a, b) == [st EXCEPT ![p] = [pc |-> pc, a |-> a, b |-> b]]
Done(p) == st[p].pc = "done"

InitPc(p) == CASE p.k = "gen"  -> [pc |-> "poll", a |-> p.total, b |-> 0]
               [] p.k = "map"  -> [pc |-> IF p.tmp THEN "open" ELSE "recv", a |-> 0, b |-> 0]
               [] p.k = "sink" -> [pc |-> IF cfg.k = 0 THEN "cancel" ELSE "recv", a |-> 0, b |-> 0]
               [] p.k = "waiter" -> [pc |-> "wait", a |-> 0, b |-> 0]
               [] OTHER        -> [pc |-> "recv", a |-> 0, b |-> 0]

Init == /\ ci \in DOMAIN CfgSeq
        /\ cnt = [c \in DOMAIN net.caps |-> 0]
        /\ closed = [c \in DOMAIN net.caps |-> FALSE]
        /\ st = [p \in DOMAIN net.procs |-> InitPc(net.procs[p])]
        /\ cancelC = FALSE /\ cancelL = FALSE /\ temp = 0 /\ seen = 0 /\ sinkClosed = FALSE

Close(c) == [closed EXCEPT ![c] = TRUE]
CloseAll(cs) == [c \in DOMAIN closed |-> closed[c] \/ c \in cs]

\* ---- gen: select { case <-ctx.Done(): return; default: }; o <- element
Gen(p) == LET q == P(p) IN
  \/ /\ st[p].pc = "poll"
     /\ IF Cancelled \/ st[p].a = 0
          THEN closed' = Close(q.out) /\ st' = Pc(p, "done", 0, 0)
          ELSE closed' = closed /\ st' = Pc(p, "send", st[p].a, 0)
     /\ UNCHANGED <<cnt, cancelC, cancelL, temp, seen, sinkClosed>>
  \/ /\ st[p].pc = "send" /\ CanSend(q.out)
     /\ cnt' = Snd(q.out) /\ st' = Pc(p, "poll", st[p].a - 1, 0)
     /\ UNCHANGED <<closed, cancelC, cancelL, temp, seen, sinkClosed>>

\* ---- map
Map(p) == LET q == P(p) IN
  \/ /\ st[p].pc = "open"                     \* distinct: kv := man.GetTempKV() before the loop
     /\ temp' = temp + 1 /\ st' = Pc(p, "recv", 0, 0)
     /\ UNCHANGED <<cnt, closed, cancelC, cancelL, seen, sinkClosed>>
  \/ /\ st[p].pc = "recv" /\ CanRecv(q.in)
     /\ cnt' = Rcv(q.in)
     /\ \E m \in (IF q.f = -1 THEN {0, 1} ELSE {q.f}) :
          st' = Pc(p, IF m = 0 THEN "recv" ELSE "send", m, 0)
     /\ UNCHANGED <<closed, cancelC, cancelL, temp, seen, sinkClosed>>
  \/ /\ st[p].pc = "recv" /\ Drained(q.in)
     /\ closed' = IF q.closes THEN Close(q.out) ELSE closed
     /\ temp' = IF q.cleanup THEN 0 ELSE temp   \* pipeline.Run: man.Cleanup() then close(resch)
     /\ st' = Pc(p, "done", 0, 0)
     /\ UNCHANGED <<cnt, cancelC, cancelL, seen, sinkClosed>>
  \/ /\ st[p].pc = "send" /\ CanSend(q.out)
     /\ cnt' = Snd(q.out)
     /\ st' = Pc(p, IF st[p].a = 1 THEN "recv" ELSE "send", st[p].a - 1, 0)
     /\ UNCHANGED <<closed, cancelC, cancelL, temp, seen, sinkClosed>>

\* ---- tee
Tee(p) == LET q == P(p) IN
  \/ /\ st[p].pc = "recv" /\ CanRecv(q.in)
     /\ cnt' = Rcv(q.in) /\ st' = Pc(p, "send", 1, 0)
     /\ UNCHANGED <<closed, cancelC, cancelL, temp, seen, sinkClosed>>
  \/ /\ st[p].pc = "send" /\ CanSend(q.outs[st[p].a])
     /\ cnt' = Snd(q.outs[st[p].a])
     /\ st' = IF st[p].a = Len(q.outs) THEN Pc(p, "recv", 0, 0) ELSE Pc(p, "send", st[p].a + 1, 0)
     /\ UNCHANGED <<closed, cancelC, cancelL, temp, seen, sinkClosed>>
  \/ /\ st[p].pc = "recv" /\ Drained(q.in)     \* input exhausted: close the fan-out channels, only now start draining
     /\ IF q.drains = <<>>
          THEN /\ closed' = CloseAll(SeqSet(q.outs) \cup (IF q.closes THEN {q.out} ELSE {}))
               /\ st' = Pc(p, "done", 0, 0)
          ELSE /\ closed' = CloseAll(SeqSet(q.outs))
               /\ st' = Pc(p, "drain", 1, 0)
     /\ UNCHANGED <<cnt, cancelC, cancelL, temp, seen, sinkClosed>>
  \/ /\ st[p].pc = "drain" /\ CanRecv(q.drains[st[p].a])
     /\ cnt' = Rcv(q.drains[st[p].a]) /\ st' = Pc(p, "dsend", st[p].a, 0)
     /\ UNCHANGED <<closed, cancelC, cancelL, temp, seen, sinkClosed>>
  \/ /\ st[p].pc = "drain" /\ Drained(q.drains[st[p].a])
     /\ IF st[p].a = Len(q.drains)
          THEN closed' = (IF q.closes THEN Close(q.out) ELSE closed) /\ st' = Pc(p, "done", 0, 0)
          ELSE closed' = closed /\ st' = Pc(p, "drain", st[p].a + 1, 0)
     /\ UNCHANGED <<cnt, cancelC, cancelL, temp, seen, sinkClosed>>
  \/ /\ st[p].pc = "dsend" /\ CanSend(q.out)
     /\ cnt' = Snd(q.out) /\ st' = Pc(p, "drain", st[p].a, 0)
     /\ UNCHANGED <<closed, cancelC, cancelL, temp, seen, sinkClosed>>

\* ---- collect
Collect(p) == LET q == P(p) IN
  \/ /\ st[p].pc = "recv" /\ CanRecv(q.in)
     /\ cnt' = Rcv(q.in)
     /\ UNCHANGED <<st, closed, cancelC, cancelL, temp, seen, sinkClosed>>
  \/ /\ st[p].pc = "recv" /\ Drained(q.in)
     /\ st' = Pc(p, "emit", q.r, 0)
     /\ UNCHANGED <<cnt, closed, cancelC, cancelL, temp, seen, sinkClosed>>
  \/ /\ st[p].pc = "emit" /\ st[p].a > 0 /\ CanSend(q.out)
     /\ cnt' = Snd(q.out) /\ st' = Pc(p, "emit", st[p].a - 1, 0)
     /\ UNCHANGED <<closed, cancelC, cancelL, temp, seen, sinkClosed>>
  \/ /\ st[p].pc = "emit" /\ st[p].a = 0
     /\ closed' = (IF q.closes THEN Close(q.out) ELSE closed) /\ st' = Pc(p, "done", 0, 0)
     /\ UNCHANGED <<cnt, cancelC, cancelL, temp, seen, sinkClosed>>

\* ---- limit: b = rows seen so far (saturating at l + 1)
Limit(p) == LET q == P(p) IN
  \/ /\ st[p].pc = "recv" /\ CanRecv(q.in)
     /\ cnt' = Rcv(q.in)
     /\ IF st[p].b < q.l THEN st' = Pc(p, "send", 0, st[p].b) /\ cancelL' = cancelL
        ELSE /\ st' = Pc(p, "recv", 0, q.l + 1)
             /\ cancelL' = (cancelL \/ st[p].b = q.l)
     /\ UNCHANGED <<closed, cancelC, temp, seen, sinkClosed>>
  \/ /\ st[p].pc = "send" /\ CanSend(q.out)
     /\ cnt' = Snd(q.out) /\ st' = Pc(p, "recv", 0, st[p].b + 1)
     /\ UNCHANGED <<closed, cancelC, cancelL, temp, seen, sinkClosed>>
  \/ /\ st[p].pc = "recv" /\ Drained(q.in)
     /\ closed' = Close(q.out) /\ st' = Pc(p, "done", 0, 0)
     /\ UNCHANGED <<cnt, cancelC, cancelL, temp, seen, sinkClosed>>

Waiter(p) == LET q == P(p) IN
  /\ st[p].pc = "wait" /\ \A w \in q.waits : Done(w)
  /\ closed' = Close(q.out) /\ st' = Pc(p, "done", 0, 0)
  /\ UNCHANGED <<cnt, cancelC, cancelL, temp, seen, sinkClosed>>

Sink(p) == LET q == P(p) IN
  \/ /\ st[p].pc = "cancel"                   \* k = 0: cancel before the first row is read
     /\ cancelC' = TRUE /\ st' = Pc(p, "recv", 0, 0)
     /\ UNCHANGED <<cnt, closed, cancelL, temp, seen, sinkClosed>>
  \/ /\ st[p].pc = "recv" /\ CanRecv(q.in)
     /\ cnt' = Rcv(q.in) /\ seen' = seen + 1
     /\ cancelC' = (cancelC \/ seen + 1 = cfg.k)
     /\ UNCHANGED <<st, closed, cancelL, temp, sinkClosed>>
  \/ /\ st[p].pc = "recv" /\ Drained(q.in)
     /\ sinkClosed' = TRUE /\ st' = Pc(p, "done", 0, 0)
     /\ UNCHANGED <<cnt, closed, cancelC, cancelL, temp, seen>>

Step(p) == CASE P(p).k = "gen" -> Gen(p) [] P(p).k = "map" -> Map(p) [] P(p).k = "tee" -> Tee(p)
             [] P(p).k = "collect" -> Collect(p) [] P(p).k = "limit" -> Limit(p)
             [] P(p).k = "waiter" -> Waiter(p) [] P(p).k = "sink" -> Sink(p)

AllDone == \A p \in Procs : Done(p)

\* can goroutine p take a step?  (a parked goroutine cannot)
CanStep(p) == LET q == P(p)  pc == st[p].pc IN
  CASE pc = "done" -> FALSE
    [] pc \in {"poll", "open", "cancel"} -> TRUE
    [] pc = "wait" -> \A w \in q.waits : Done(w)
    [] pc = "recv" -> CanRecv(q.in) \/ Drained(q.in)
    [] pc = "send" -> IF q.k = "tee" THEN CanSend(q.outs[st[p].a]) ELSE CanSend(q.out)
    [] pc = "dsend" -> CanSend(q.out)
    [] pc = "drain" -> CanRecv(q.drains[st[p].a]) \/ Drained(q.drains[st[p].a])
    [] pc = "emit" -> st[p].a = 0 \/ CanSend(q.out)
Stuck == ~AllDone /\ \A p \in Procs : ~CanStep(p)

\* Partial-order reduction.  A step is SAFE when it commutes with every step of every other goroutine
\* and can never be disabled by one: channel operations of a deterministic goroutine on channels that
\* have one writer and one reader (a Kahn network with bounded channels).  Not safe: the scan's poll of
\* the context while a cancel may still arrive, the step of limit / sink that cancels it, and sends into
\* a channel that has several writers (the drain goroutines of the concurrent both, the consumers of
\* aggregate).  Executing one
\* safe step and nothing else is an ample set (the state graph is acyclic), so every deadlock and
\* every final state of the full interleaving is still reached.  Properties about intermediate
\* states (Released) are checked on the unreduced runs.
\* can the context still be cancelled?  (monotone: once FALSE it stays FALSE)
CancelPossible ==
  \/ (cfg.k # Never /\ ~cancelC /\ seen < cfg.k) \/ (cfg.k = 0 /\ ~cancelC)
  \/ \E p \in Procs : P(p).k = "limit" /\ ~Done(p) /\ st[p].b <= P(p).l
Safe(p) == LET q == P(p)  pc == st[p].pc IN
  CASE q.k = "sink"  -> pc = "recv" /\ (cfg.k = Never \/ seen + 1 # cfg.k)      \* not the receive that cancels
    [] q.k = "limit" -> pc = "send" \/ st[p].b # q.l                             \* not the receive that cancels
    [] q.k = "gen"   -> pc = "send" \/ Cancelled \/ ~CancelPossible             \* the poll has one possible outcome
    [] q.k \in {"map", "collect"} /\ ~q.closes -> pc \notin {"send", "emit"}     \* out has other writers
    [] OTHER -> TRUE
SafeNow == { p \in Procs : Safe(p) /\ CanStep(p) }
Least(S) == CHOOSE x \in S : \A y \in S : x <= y

RealNext == /\ IF Reduce /\ SafeNow # {} THEN Step(Least(SafeNow)) ELSE \E p \in Procs : Step(p)
            /\ UNCHANGED ci

Next == \/ RealNext
        \/ (AllDone /\ UNCHANGED vars)
        \/ (Survey /\ Stuck /\ UNCHANGED vars)

Spec == Init /\ [][Next]_vars /\ WF_vars(RealNext)

------------------------------------------------------------------------
(* properties                                                            *)
TypeOK == \A c \in Chs : cnt[c] >= 0 /\ cnt[c] <= net.caps[c]

\* the result stream is closed after finitely many rows
Termination == <>sinkClosed
\* after a client cancel (and also without one) every goroutine finishes
CancelStops == cancelC ~> AllDone
AllStop     == <>AllDone
\* when the client sees the close, every goroutine of the pipeline is gone and the temporary stores are released
Released == sinkClosed => /\ \A p \in Procs : Done(p)
                          /\ temp = 0
\* an uncancelled run delivers exactly the arithmetic number of rows; a cancelled one never more
RowsOK == /\ seen <= Expected(cfg).hi
          /\ (sinkClosed /\ ~cancelC) => seen >= Expected(cfg).lo

\* survey: report every stuck state with the goroutines that are blocked and where
Blocked == { p \in Procs : ~Done(p) }
BlockedOn(p) == LET q == P(p)  s == st[p] IN
  IF s.pc = "send" /\ q.k = "tee" THEN "send-fanout"
  ELSE IF s.pc \in {"send", "dsend"} \/ (s.pc = "emit" /\ s.a > 0) THEN "send"
  ELSE IF s.pc = "wait" THEN "wait" ELSE "recv"
SurveyInv == (Survey /\ Stuck) =>
   Emit("stuck", [stages |-> cfg.stages, n |-> cfg.n, f |-> cfg.f, k |-> cfg.k, seen |-> seen, cancelled |-> Cancelled,
                  blocked |-> { [role |-> P(p).role, stage |-> P(p).stage, on |-> BlockedOn(p)] : p \in Blocked }])
\* every explored configuration is printed once (evaluated at start-up)
ASSUME \A i \in DOMAIN CfgSeq :
   Emit("config", [stages |-> CfgSeq[i].stages, n |-> CfgSeq[i].n, f |-> CfgSeq[i].f, k |-> CfgSeq[i].k,
                   lo |-> Expected(CfgSeq[i]).lo, hi |-> Expected(CfgSeq[i]).hi,
                   goroutines |-> Len(Nets[i].procs) - 1, channels |-> Len(Nets[i].caps)])
=======================================================================
