\* stand-alone use: put GraphStore.tla (spec/store), spec/common/*.tla and traces.ndjson next to the specs.
\* lib/checks/c17.py writes this file itself (RealTime TRUE, then FALSE for what was rejected).
CONSTANT NClients = 1
CONSTANT CallsPer = 1
CONSTANT Alpha = "full"
CONSTANT RealTime = TRUE
CONSTANT CheckFinal = TRUE
INIT TInit
NEXT TNext
INVARIANT Accepted
CHECK_DEADLOCK FALSE
