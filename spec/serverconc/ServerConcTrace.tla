------------------------- MODULE ServerConcTrace -------------------------
(* Trace validation for C17.  traces.ndjson holds one recorded history    *)
(* per line:                                                               *)
(*   cl[c][k] = [call, ti, tr, res]   k-th call of client c with the       *)
(*              stamps of its Invoke and Return events (one atomic         *)
(*              counter inside the harness) and what the server answered;  *)
(*   final    = what was observed after the last return (store, schemas,   *)
(*              jobs, liveness);                                            *)
(*   comps    = the objects of the server state it is to be validated for. *)
(* Invoke and Return consume events; the effect step of ServerConc.tla is  *)
(* silent and may be placed anywhere between them: TLC searches for the    *)
(* linearisation.  A history is accepted when a state is reached in which  *)
(* every event is consumed and the observed final state equals the state   *)
(* of the specification (TFinal).                                           *)
(*                                                                          *)
(* The graphs, the schemas and the jobs are independent objects of the     *)
(* server state and linearisability is local (Herlihy/Wing): a history is  *)
(* validated object by object (comp), each (history, object) pair being an *)
(* initial state of its own, so one TLC run validates many histories.      *)
(* Reads do not change the state and are held to ReadProvenance only, a    *)
(* predicate on the recorded stamps: they are judged in the component      *)
(* "static", together with liveness.                                        *)
(*                                                                          *)
(* RealTime = TRUE: events are consumed in stamp order (a call that        *)
(* returned before another was invoked takes effect before it).            *)
(* RealTime = FALSE: only each client's own order is kept - the order the  *)
(* property text asks for (calls are then atomic steps in any interleaving;*)
(* checking object by object is then a necessary condition only).          *)
(* An edit that was not acknowledged (the call returned an error) may or   *)
(* may not have taken effect; an acknowledged edit takes effect exactly    *)
(* once, at a point where GraphStore!Eff accepts it.                       *)
EXTENDS ServerConc

CONSTANTS RealTime,    \* BOOLEAN
          CheckFinal   \* FALSE: accept when all events are consumed, and print the final states that are reachable

Traces == ndJsonDeserialize("traces.ndjson")
Comps == {"g1", "g2", "schemas", "jobs", "static"}

VARIABLES tr,         \* the history being validated
          comp,       \* the object of the server state it is validated for
          pos,        \* client -> index of its current (or next) call on that object
          fin         \* the final observation has been matched
tvars == <<store, schemas, jobs, up, sess, ph, res, lin, tr, comp, pos, fin>>

T == Traces[tr]
NC == Len(T.cl)

CompOf(call) == CASE call.op \in EditOps -> call.g
                  [] call.op = "AddSchema" -> "schemas"
                  [] call.op \in {"Submit", "GetJob"} -> "jobs"
                  [] OTHER -> "read"      \* no object: reads are judged by Provenance
\* index of the first call of client c after index p that concerns object cm
NextRel(t, cm, c, p) ==
  LET Rel == {k \in (p + 1)..Len(t.cl[c]) : CompOf(t.cl[c][k].call) = cm}
  IN  IF Rel = {} THEN Len(t.cl[c]) + 1 ELSE CHOOSE k \in Rel : \A j \in Rel : k <= j
Over(c) == pos[c] > Len(T.cl[c])
Cur(c) == T.cl[c][pos[c]]

\* recorded rows [k, id, label, (from, to,) d] -> GraphStore elements
ToEl(x) == IF x.k = "v" THEN V(x.id, x.label, x.d) ELSE E(x.id, x.label, x.from, x.to, x.d)
ToEls(rows) == [i \in DOMAIN rows |-> ToEl(rows[i])]
HasElems(op) == op \in WriteOps \cup {"AddSchema"}
ToCall(c) == IF HasElems(c.op) THEN [op |-> c.op, g |-> c.g, elems |-> ToEls(c.elems)] ELSE c

TInit == /\ tr \in 1..Len(Traces) /\ comp \in Comps \cap {Traces[tr].comps[k] : k \in DOMAIN Traces[tr].comps}
         /\ store = InitStore /\ schemas = <<>> /\ jobs = <<>> /\ up = TRUE
         /\ sess = <<>> /\ res = <<>> /\ lin = <<>>
         /\ ph = [c \in 1..Len(Traces[tr].cl) |-> "idle"]
         /\ pos = [c \in 1..Len(Traces[tr].cl) |-> NextRel(Traces[tr], comp, c, 0)]
         /\ fin = FALSE

\* the stamp of the next event of client c (beyond every stamp when it has none)
NextStamp(c) == IF Over(c) THEN 1000000 ELSE IF ph[c] = "idle" THEN Cur(c).ti ELSE Cur(c).tr
InOrder(c) == \A c2 \in 1..NC : NextStamp(c) <= NextStamp(c2)

TInvoke(c) == /\ RealTime /\ ph[c] = "idle" /\ ~Over(c) /\ InOrder(c)
              /\ ph' = [ph EXCEPT ![c] = "inv"]
              /\ UNCHANGED <<store, schemas, jobs, up, sess, res, lin, tr, comp, pos, fin>>

\* the effect of an edit, given what the server answered
EditEffect(call, r) ==
  LET e == GS!Eff(store, call) IN
    \/ r.res = "ok" /\ e[2] \in {"ok", "any"} /\ store' = e[1]
    \/ r.res # "ok" /\ store' = store
    \/ r.res # "ok" /\ e[2] = "ok" /\ store' = e[1]

\* the state change of the current call of client c
Change(c) ==
     LET call == ToCall(Cur(c).call)
         r == Cur(c).res IN
       \/ /\ call.op \in EditOps
          /\ EditEffect(call, r) /\ UNCHANGED <<schemas, jobs>>
       \/ /\ call.op = "AddSchema"
          /\ \/ schemas' = Put(schemas, call.g, ElemSet(call.elems))
             \/ r.res # "ok" /\ schemas' = schemas
          /\ UNCHANGED <<store, jobs>>
       \/ /\ call.op = "Submit"
          /\ IF r.res = "ok" THEN jobs' = Put(jobs, <<c, call.n>>, "RUNNING") ELSE jobs' = jobs
          /\ r.res = "ok" => r.meta
          /\ UNCHANGED <<store, schemas>>
       \/ /\ call.op = "GetJob"
          \* the spool goroutine completes the job at a moment of its own: a COMPLETE answer
          \* places that moment before this step, a RUNNING answer after it
          /\ LET j == <<c, call.ref>> IN
               IF r.res = "ok"
               THEN /\ j \in DOMAIN jobs /\ r.meta
                    /\ \/ r.state = "COMPLETE" /\ jobs' = [jobs EXCEPT ![j] = "COMPLETE"]
                       \/ r.state \in {"QUEUED", "RUNNING"} /\ jobs[j] = "RUNNING" /\ jobs' = jobs
               ELSE j \notin DOMAIN jobs /\ jobs' = jobs
          /\ UNCHANGED <<store, schemas>>

TEffect(c) == /\ RealTime /\ ph[c] = "inv"
              /\ Change(c)
              /\ ph' = [ph EXCEPT ![c] = "eff"]
              /\ UNCHANGED <<up, sess, res, lin, tr, comp, pos, fin>>

\* per-client order only: a call is one atomic step, in any interleaving that keeps each client's order
TCall(c) == /\ ~RealTime /\ ~Over(c)
            /\ Change(c)
            /\ pos' = [pos EXCEPT ![c] = NextRel(T, comp, c, @)]
            /\ UNCHANGED <<up, sess, ph, res, lin, tr, comp, fin>>

TReturn(c) == /\ RealTime /\ ph[c] = "eff" /\ InOrder(c)
              /\ ph' = [ph EXCEPT ![c] = "idle"]
              /\ pos' = [pos EXCEPT ![c] = NextRel(T, comp, c, @)]
              /\ UNCHANGED <<store, schemas, jobs, up, sess, res, lin, tr, comp, fin>>

\* ReadProvenance: every returned element was written into that graph by a call invoked
\* before the read returned; a returned schema is the schema of one such AddSchema call
AllRecs == UNION {{T.cl[c][k] : k \in DOMAIN T.cl[c]} : c \in 1..NC}
Provenance(rec) ==
  LET call == rec.call
      before == {x \in AllRecs : x.ti < rec.tr /\ x.call.g = call.g}
  IN  IF rec.res.res # "ok" THEN TRUE
      ELSE IF call.op \in ReadOps
           THEN \A i \in DOMAIN rec.res.elems :
                   \E x \in before : x.call.op \in WriteOps /\ \E j \in DOMAIN x.call.elems : x.call.elems[j] = rec.res.elems[i]
      ELSE IF call.op = "GetSchema"
           THEN /\ rec.res.meta
                /\ \E x \in before : x.call.op = "AddSchema" /\ ElemSet(x.call.elems) = ElemSet(rec.res.elems)
      ELSE TRUE

\* the observed final state as a GraphStore state
SeqSet(q) == {q[i] : i \in DOMAIN q}
AbsGraph(o) == [V |-> [id \in {x.id : x \in SeqSet(o.V)} |->
                         LET x == CHOOSE y \in SeqSet(o.V) : y.id = id IN [label |-> x.label, data |-> DataOf(x.d)]],
                E |-> [id \in {x.id : x \in SeqSet(o.E)} |->
                         LET x == CHOOSE y \in SeqSet(o.E) : y.id = id IN [label |-> x.label, from |-> x.from, to |-> x.to, data |-> DataOf(x.d)]]]
ObsGraphs == {o.g : o \in SeqSet(T.final.store)}
ObsGraph(g) == AbsGraph(CHOOSE o \in SeqSet(T.final.store) : o.g = g)

FinalMatches ==
  CASE comp \in {"g1", "g2"} ->
         /\ (comp \in DOMAIN store) = (comp \in ObsGraphs)
         /\ comp \in DOMAIN store => store[comp] = ObsGraph(comp)
    [] comp = "schemas" ->
         \A i \in DOMAIN T.final.schemas :
            LET o == T.final.schemas[i] IN
              IF o.g \in DOMAIN schemas
              THEN /\ o.has_served /\ ElemSet(ToEls(o.served)) = schemas[o.g]
                   /\ o.has_stored /\ ElemSet(ToEls(o.stored)) = schemas[o.g]
              ELSE ~o.has_served /\ ~o.has_stored
    [] comp = "jobs" ->
         \A i \in DOMAIN T.final.jobs :
            LET o == T.final.jobs[i] IN
              /\ <<o.c, o.k>> \in DOMAIN jobs /\ o.meta
              /\ o.state \in {"QUEUED", "RUNNING", "COMPLETE"}
              /\ o.state # "COMPLETE" => jobs[<<o.c, o.k>>] = "RUNNING"
    [] comp = "static" ->
         /\ T.final.up = up                            \* the server still answers
         /\ ObsGraphs \subseteq {"g1", "g2"}           \* no graph nobody created
         /\ \A x \in AllRecs : Provenance(x)

AllConsumed == \A c \in 1..NC : ph[c] = "idle" /\ Over(c)

TFinal == /\ ~fin /\ AllConsumed
          /\ CheckFinal => FinalMatches
          /\ fin' = TRUE
          /\ UNCHANGED <<store, schemas, jobs, up, sess, ph, res, lin, tr, comp, pos>>

TNext == \/ \E c \in 1..NC : TInvoke(c) \/ TEffect(c) \/ TReturn(c) \/ TCall(c)
         \/ TFinal

\* acceptance: the driver collects the accepted (history, object) pairs; for a graph, with the
\* complete observation the abstract store prescribes (compared with what the harness read back)
Accepted == fin => Emit("acc", [i |-> T.i, comp |-> comp,
                                obs |-> IF comp \in DOMAIN store /\ comp \in {"g1", "g2"} THEN <<GS!ObsG(store[comp])>> ELSE <<>>,
                                st |-> IF CheckFinal THEN <<>>
                                       ELSE IF comp \in {"g1", "g2"} THEN <<IF comp \in DOMAIN store THEN store[comp] ELSE "absent">>
                                       ELSE IF comp = "schemas" THEN <<schemas>> ELSE <<>>])
=======================================================================
