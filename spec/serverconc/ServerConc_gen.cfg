CONSTANT NClients = 3
CONSTANT CallsPer = 8
CONSTANT Alpha = "full"
SPECIFICATION Spec
INVARIANT EmitSess
CHECK_DEADLOCK FALSE
