--------------------------- MODULE ServerConc ---------------------------
(* C17 (abstract, property-level): concurrent clients of one server.       *)
(* The server state is GraphStore.tla's store (the sequential meaning of    *)
(* every edit is GraphStore!Eff, instantiated, not copied) plus the schema  *)
(* of each graph and the submitted jobs.  Each client runs a session, a     *)
(* sequence of API calls; every call is  Invoke, one ATOMIC effect step,    *)
(* Return.  The property:                                                    *)
(*   FinalState      when every session has returned, the store is the      *)
(*                   result of applying the edits in ONE order that agrees  *)
(*                   with each session's own order;                         *)
(*   ReadProvenance  every element a read returns was written by some call  *)
(*                   that had been invoked;                                  *)
(*   Up              the server is up in every state.                        *)
(* TLC checks them exhaustively on a small instance (cfg *_mc) and prints   *)
(* random sessions of the full alphabet (cfg *_gen, -simulate) that the     *)
(* harness runs against the real server.  The operators above the line      *)
(* "generator" are shared with ServerConcTrace.tla, which validates the     *)
(* recorded histories.                                                       *)
EXTENDS Values, SequencesExt

CONSTANTS NClients,   \* number of concurrent clients
          CallsPer,   \* calls per session
          Alpha       \* "tiny", "small": exhaustive instances; "full": session generation

VARIABLES store,      \* GraphStore state: graph name -> [V, E]
          schemas,    \* graph name -> set of schema elements
          jobs,       \* <<client, submit number>> -> "RUNNING" | "COMPLETE"
          up,         \* the server process is alive
          sess,       \* client -> calls invoked so far
          ph,         \* client -> "idle" | "inv" | "eff"   (phase of its last call)
          res,        \* client -> results of its calls
          lin         \* the order in which the effect steps happened
vars == <<store, schemas, jobs, up, sess, ph, res, lin>>

\* only the state-independent operators of GraphStore are used (Eff, ObsG, element constructors); its
\* other variables are bound to a dummy (the driver regenerates this line from GraphStore's VARIABLES)
GS == INSTANCE GraphStore WITH gs <- store, HistLen <- 0, hist <- <<>>, fin <- <<>>

------------------------------------------------------------------------
(* elements; the data of an element is named by a number: 0 is the empty  *)
(* map, n > 0 is {x: n}.  Sessions give every write its own number, so    *)
(* that a stored element names the call that wrote it.                     *)
DataOf(d) == IF d = 0 THEN EmptyMap ELSE M([x |-> N(d)])
V(id, l, d)       == GS!VE(GS!VRec(id, l, DataOf(d)))
E(id, l, f, t, d) == GS!EE(GS!ERec(id, l, f, t, DataOf(d)))

EditOps  == {"AddGraph", "DeleteGraph", "AddVertex", "AddEdge", "BulkAdd", "DelVertex", "DelEdge"}
WriteOps == {"AddVertex", "AddEdge", "BulkAdd"}
ReadOps  == {"GetVertex", "GetEdge", "Traversal"}

Put(f, k, v) == [x \in DOMAIN f \cup {k} |-> IF x = k THEN v ELSE f[x]]
ElemSet(elems) == {elems[i] : i \in DOMAIN elems}

\* what a read returns when it is evaluated atomically on store s: a set of elements
VEl(G, id) == GS!VE([id |-> id, label |-> G.V[id].label, data |-> G.V[id].data])
EEl(G, id) == GS!EE([id |-> id, label |-> G.E[id].label, from |-> G.E[id].from, to |-> G.E[id].to, data |-> G.E[id].data])
ReadResult(s, c) ==
  IF c.g \notin DOMAIN s THEN {}
  ELSE LET G == s[c.g] IN
    CASE c.op = "GetVertex" -> IF c.id \in DOMAIN G.V THEN {VEl(G, c.id)} ELSE {}
      [] c.op = "GetEdge"   -> IF c.id \in DOMAIN G.E THEN {EEl(G, c.id)} ELSE {}
      [] c.op = "Traversal" ->
           CASE c.q = "V" -> {VEl(G, i) : i \in DOMAIN G.V}
             [] c.q = "E" -> {EEl(G, i) : i \in DOMAIN G.E}
             [] c.q \in {"out", "jump"} -> {VEl(G, G.E[e].to) : e \in {x \in DOMAIN G.E : G.E[x].from = c.id /\ G.E[x].to \in DOMAIN G.V}}
             [] c.q = "in"   -> {VEl(G, G.E[e].from) : e \in {x \in DOMAIN G.E : G.E[x].to = c.id /\ G.E[x].from \in DOMAIN G.V}}
             [] c.q = "outE" -> {EEl(G, e) : e \in {x \in DOMAIN G.E : G.E[x].from = c.id}}
             [] c.q = "inE"  -> {EEl(G, e) : e \in {x \in DOMAIN G.E : G.E[x].to = c.id}}

\* the atomic meaning of one call of client cl on the server state st = [store, schemas, jobs]:
\* <<new state, specified result>>
SEff(st, cl, c) ==
  CASE c.op \in EditOps   -> LET e == GS!Eff(st.store, c) IN <<[st EXCEPT !.store = e[1]], e[2]>>
    [] c.op \in ReadOps   -> <<st, ReadResult(st.store, c)>>
    [] c.op = "AddSchema" -> <<[st EXCEPT !.schemas = Put(st.schemas, c.g, ElemSet(c.elems))], "ok">>
    [] c.op = "GetSchema" -> <<st, IF c.g \in DOMAIN st.schemas THEN <<"schema", st.schemas[c.g]>> ELSE <<"notfound">>>>
    [] c.op = "Submit"    -> <<[st EXCEPT !.jobs = Put(st.jobs, <<cl, c.n>>, "RUNNING")], "ok">>
    [] c.op = "GetJob"    -> <<st, IF <<cl, c.ref>> \in DOMAIN st.jobs THEN st.jobs[<<cl, c.ref>>] ELSE "error">>

\* the elements a call writes into graph g
Writes(c, g) == IF c.op \in WriteOps /\ c.g = g THEN ElemSet(c.elems) ELSE {}

StableGraphs == {"g1"}                   \* exist from the start, never deleted
InitStore == [g \in StableGraphs |-> GS!EmptyG]
InitSt == [store |-> InitStore, schemas |-> <<>>, jobs |-> <<>>]

------------------------------------------------------------------------
(* generator and model (the trace spec re-uses only the operators above)   *)
Clients == 1..NClients
Owner == 1                                \* the one client that creates and deletes g2
PV == <<"p1", "p2", "p3", "p4", "p5", "p6", "p7", "p8">>   \* private vertex of each client
PE == <<"q1", "q2", "q3", "q4", "q5", "q6", "q7", "q8">>   \* private edge of each client

\* every edge id has ONE label and ONE pair of endpoints in all sessions
EdgeDef(e) == CASE e = "e1" -> <<"K1", "a", "b">>
                [] e = "e2" -> <<"K2", "b", "a">>
                [] OTHER -> <<"K1", PV[CHOOSE c \in 1..8 : PE[c] = e], "a">>
Ed(e, d) == E(e, EdgeDef(e)[1], EdgeDef(e)[2], EdgeDef(e)[3], d)

S1 == <<V("A", "A", 0), V("B", "B", 0), E("AB", "AB", "A", "B", 0)>>
S2 == <<V("C", "C", 0)>>

Full == Alpha = "full"
Graphs == {"g1", "g2"}
EGraphs == IF Alpha = "tiny" THEN {"g1"} ELSE Graphs     \* graphs of edge writes, vertex deletes, lookups
DGraphs == IF Alpha = "tiny" THEN {} ELSE Graphs         \* graphs of edge deletes
VIdsOf(c) == IF Full THEN {"a", "b", PV[c]} ELSE {"a"}
EIdsOf(c) == IF Full THEN {"e1", "e2", PE[c]} ELSE {"e1"}
Labels == IF Full THEN {"L1", "L2"} ELSE {"L1"}

NSub(s) == Cardinality({i \in DOMAIN s : s[i].op = "Submit"})
\* the owner knows whether g2 exists: it is the only one who creates or deletes it
OwnerHas(s) == LET ops == SelectSeq(s, LAMBDA x : x.op \in {"AddGraph", "DeleteGraph"})
               IN  ops # <<>> /\ ops[Len(ops)].op = "AddGraph"

\* the calls client c may issue next, after session s; d numbers its data.  The field w only
\* multiplies the options of rare operations so that -simulate draws them more often.
W(n) == IF Full THEN 1..n ELSE {1}
Gen(c, s) ==
  LET d == 100 * c + Len(s) + 1 IN
       (IF c = Owner THEN {[op |-> IF OwnerHas(s) THEN "DeleteGraph" ELSE "AddGraph", g |-> "g2", w |-> w] : w \in W(12)} ELSE {})
  \cup {[op |-> "AddVertex", g |-> g, elems |-> <<V(i, l, d)>>] : g \in Graphs, i \in VIdsOf(c), l \in Labels}
  \cup {[op |-> "AddEdge", g |-> g, elems |-> <<Ed(e, d)>>] : g \in EGraphs, e \in EIdsOf(c)}
  \cup {[op |-> "DelVertex", g |-> g, id |-> i] : g \in EGraphs, i \in VIdsOf(c)}
  \cup {[op |-> "DelEdge", g |-> g, id |-> e] : g \in DGraphs, e \in EIdsOf(c)}
  \cup {[op |-> "GetVertex", g |-> g, id |-> "a"] : g \in EGraphs}
  \cup (IF Alpha = "tiny" THEN {} ELSE {[op |-> "Traversal", g |-> "g1", q |-> "out", id |-> "a"]})
  \cup {[op |-> "AddSchema", g |-> "g1", elems |-> x, w |-> w] : x \in (IF Alpha = "tiny" THEN {S1} ELSE {S1, S2}), w \in W(2)}
  \cup {[op |-> "GetSchema", g |-> "g1"]}
  \cup {[op |-> "Submit", g |-> "g1", q |-> "V", id |-> "", n |-> NSub(s) + 1, w |-> w] : w \in W(2)}
  \cup {[op |-> "GetJob", g |-> "g1", ref |-> k, w |-> w] : k \in 1..NSub(s), w \in W(2)}
  \cup (IF ~Full THEN {} ELSE
          \* bulk loads go to graphs nobody deletes
          {[op |-> "BulkAdd", g |-> "g1", elems |-> <<V(PV[c], "L1", d), Ed(PE[c], d), V("a", "L2", d)>>, w |-> w] : w \in W(2)}
     \cup {[op |-> "BulkAdd", g |-> "g1", elems |-> <<V("a", "L1", d), V("b", "L1", d), Ed("e1", d), Ed("e2", d)>>, w |-> w] : w \in W(2)}
     \cup {[op |-> "GetVertex", g |-> "g1", id |-> "b"], [op |-> "GetEdge", g |-> "g1", id |-> "e1"], [op |-> "GetEdge", g |-> "g2", id |-> "e2"]}
     \cup {[op |-> "Traversal", g |-> g, q |-> q, id |-> ""] : g \in Graphs, q \in {"V", "E"}}
     \cup {[op |-> "Traversal", g |-> "g1", q |-> q, id |-> "a"] : q \in {"in", "outE", "inE", "jump"}}
     \cup {[op |-> "Traversal", g |-> "g2", q |-> "outE", id |-> "b"]})

St == [store |-> store, schemas |-> schemas, jobs |-> jobs]

Init == /\ store = InitStore /\ schemas = <<>> /\ jobs = <<>> /\ up = TRUE
        /\ sess = [c \in Clients |-> <<>>] /\ ph = [c \in Clients |-> "idle"]
        /\ res = [c \in Clients |-> <<>>] /\ lin = <<>>

Invoke(c) == /\ ph[c] = "idle" /\ Len(sess[c]) < CallsPer
             /\ \E call \in Gen(c, sess[c]) : sess' = [sess EXCEPT ![c] = Append(@, call)]
             /\ ph' = [ph EXCEPT ![c] = "inv"]
             /\ UNCHANGED <<store, schemas, jobs, up, res, lin>>

Effect(c) == /\ ph[c] = "inv"
             /\ LET r == SEff(St, c, sess[c][Len(sess[c])]) IN
                  /\ store' = r[1].store /\ schemas' = r[1].schemas /\ jobs' = r[1].jobs
                  /\ res' = [res EXCEPT ![c] = Append(@, r[2])]
             /\ lin' = Append(lin, <<c, Len(sess[c])>>)
             /\ ph' = [ph EXCEPT ![c] = "eff"]
             /\ UNCHANGED <<up, sess>>

Return(c) == /\ ph[c] = "eff" /\ ph' = [ph EXCEPT ![c] = "idle"]
             /\ UNCHANGED <<store, schemas, jobs, up, sess, res, lin>>

\* the spool goroutine finishes a job at some moment of its own
JobDone(j) == /\ jobs[j] = "RUNNING" /\ jobs' = [jobs EXCEPT ![j] = "COMPLETE"]
              /\ UNCHANGED <<store, schemas, up, sess, ph, res, lin>>

Next == \/ \E c \in Clients : Invoke(c) \/ Effect(c) \/ Return(c)
        \/ \E j \in DOMAIN jobs : JobDone(j)
Spec == Init /\ [][Next]_vars

------------------------------------------------------------------------
AllDone == \A c \in Clients : ph[c] = "idle" /\ Len(sess[c]) = CallsPer

\* applying the calls in the order lin, from the initial state
Replay(order) ==
  LET f[i \in 0..Len(order)] ==
        IF i = 0 THEN InitSt ELSE SEff(f[i - 1], order[i][1], sess[order[i][1]][order[i][2]])[1]
  IN  f[Len(order)]
\* lin contains each client's calls in that client's own order
OrderOK == \A c \in Clients : SelectSeq(lin, LAMBDA x : x[1] = c) = [k \in 1..Len(SelectSeq(lin, LAMBDA x : x[1] = c)) |-> <<c, k>>]

FinalState == AllDone => /\ Len(lin) = NClients * CallsPer /\ OrderOK
                         /\ Replay(lin).store = store /\ Replay(lin).schemas = schemas

\* everything that has been invoked so far
Invoked(g) == UNION {UNION {Writes(sess[c][k], g) : k \in DOMAIN sess[c]} : c \in Clients}
ReadProvenance ==
  \A c \in Clients : \A k \in DOMAIN res[c] :
     LET call == sess[c][k] IN
       /\ call.op \in ReadOps => res[c][k] \subseteq Invoked(call.g)
       /\ (call.op = "GetSchema" /\ res[c][k][1] = "schema") =>
             \E c2 \in Clients : \E k2 \in DOMAIN sess[c2] :
                 sess[c2][k2].op = "AddSchema" /\ sess[c2][k2].g = call.g /\ ElemSet(sess[c2][k2].elems) = res[c][k][2]
Up == up
\* jobs only move forward and a status names a job that was submitted
JobsOK == \A j \in DOMAIN jobs : j[1] \in Clients /\ j[2] <= NSub(sess[j[1]])
TypeOK == /\ DOMAIN store \subseteq {"g1", "g2"} /\ "g1" \in DOMAIN store
          /\ \A c \in Clients : ph[c] \in {"idle", "inv", "eff"} /\ Len(res[c]) \in {Len(sess[c]), Len(sess[c]) - 1}

\* session generation: print the sessions once they are complete (de-duplicated by the driver)
EmitSess == AllDone => Emit("sess", [n |-> NClients, sess |-> sess])
=======================================================================
