CONSTANT NClients = 2
CONSTANT CallsPer = 2
CONSTANT Alpha = "tiny"
SPECIFICATION Spec
INVARIANT TypeOK
INVARIANT Up
INVARIANT FinalState
INVARIANT ReadProvenance
INVARIANT JobsOK
CHECK_DEADLOCK FALSE
