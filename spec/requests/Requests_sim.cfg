CONSTANTS
 MaxLen = 5
 GridArgs = "full"
 Deep = TRUE
 GraphIdx = {1, 3, 7, 8}
SPECIFICATION Spec
INVARIANT AlwaysUp
INVARIANT EmitReq
CHECK_DEADLOCK FALSE
