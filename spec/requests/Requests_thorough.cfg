CONSTANTS
 MaxLen = 2
 GridArgs = "full"
 Deep = FALSE
 GraphIdx = {1, 3, 7, 8}
SPECIFICATION Spec
INVARIANT AlwaysUp
INVARIANT EmitReq
CHECK_DEADLOCK FALSE
