---------------------------- MODULE Requests ----------------------------
(* C06: requests that are structurally valid on the wire but            *)
(* semantically arbitrary.  The specification says only one thing about  *)
(* them: the outcome of every request is rows or an error, and the       *)
(* server is still up afterwards (`up` never becomes FALSE).  TLC is the *)
(* generator of the request space; each request is run in a sacrificial  *)
(* worker process and a dead or hung worker is a behaviour this          *)
(* specification does not have.                                          *)
(*                                                                       *)
(* Clauses of the space (see DESIGN.md section 4 C06):                   *)
(*  a  condition values of every JSON kind for every operator and the    *)
(*     keys the planner inspects (_gid, _label) as well as a data key    *)
(*  b  select/render/has/distinct/hasKey/fields naming undefined marks   *)
(*  c  empty / duplicate / untyped aggregations, interval 0, size 0,     *)
(*     empty percents, fields nobody has, empty input                    *)
(*  d  negative and inverted ranges, limit 0                             *)
(*  e  null-producing steps followed by every other step                 *)
(*  f  jump to an unknown mark, mark without jump, set/increment         *)
(*  h  steps the compiler accepts after count/render/path/select         *)
EXTENDS Graphs

CONSTANTS MaxLen,     \* steps after the start
          GridArgs,   \* "small" | "full": how many condition arguments
          GraphIdx,   \* graphs of GraphFamily used (1 = empty)
          Deep        \* TRUE: no shape restriction (simulation)

VARIABLES gi, prog, up
vars == <<gi, prog, up>>

Cnd(op, key, arg) == [t |-> "c", op |-> op, key |-> key, arg |-> arg]
Has(e) == [op |-> "has", e |-> e, cls |-> "grid"]
St(op) == [op |-> op, cls |-> "core"]
Mov(op, ls) == [op |-> op, labels |-> ls, cls |-> "core"]

ArgsSmall == { S("a"), N(1), Null, L(<<>>), L(<<N(1)>>), L(<<N(1), N(2), N(3)>>), L(<<S("a"), N(1)>>) }
ArgsFull == ArgsSmall \cup { B(TRUE), L(<<L(<<>>)>>), L(<<Null>>), M([k |-> N(1)]), L(<<S("a"), S("b")>>), L(<<N(0), N(2)>>), S("") }
Args == IF GridArgs = "full" THEN ArgsFull ELSE ArgsSmall
GridOps == {"eq", "gt", "within", "without", "inside", "outside", "between", "contains"}
GridKeys == {"x", "_gid", "_label", "$q.x"}

\* clause a (and b for the $q key)
Grid == { Has(Cnd(op, k, a)) : op \in GridOps, k \in GridKeys, a \in Args }
        \cup { Has([t |-> "and", es |-> <<Cnd("within", "_gid", S("a")), Cnd("eq", "x", N(1))>>]),
               Has([t |-> "and", es |-> <<>>]), Has([t |-> "or", es |-> <<>>]),
               Has([t |-> "not", e |-> Cnd("within", "_label", N(1))]),
               Has([t |-> "empty"]) }

Agg(aggs) == [op |-> "aggregate", aggs |-> aggs, cls |-> "odd"]
Odd ==
  { \* b: undefined marks
    [op |-> "select", marks |-> <<"q">>, cls |-> "odd"], [op |-> "select", marks |-> <<"q", "r">>, cls |-> "odd"],
    [op |-> "select", marks |-> <<"m", "q">>, cls |-> "odd"],
    [op |-> "render", tpl |-> S("$q.x"), cls |-> "odd"], [op |-> "render", tpl |-> M([a |-> S("$q._gid"), b |-> L(<<S("x"), N(1), Null>>)]), cls |-> "odd"],
    [op |-> "render", tpl |-> N(1), cls |-> "odd"], [op |-> "render", tpl |-> Null, cls |-> "odd"], [op |-> "render", tpl |-> S(""), cls |-> "odd"],
    [op |-> "distinct", fields |-> <<"$q.x">>, cls |-> "odd"], [op |-> "distinct", fields |-> <<"nope">>, cls |-> "odd"],
    [op |-> "distinct", fields |-> <<"">>, cls |-> "odd"],
    [op |-> "hasKey", keys |-> <<"$q.x">>, cls |-> "odd"], [op |-> "hasKey", keys |-> <<"">>, cls |-> "odd"],
    [op |-> "fields", fields |-> <<"$q.x">>, cls |-> "odd"], [op |-> "fields", fields |-> <<"-nope", "x">>, cls |-> "odd"],
    [op |-> "fields", fields |-> <<"n.k.j">>, cls |-> "odd"], [op |-> "fields", fields |-> <<"-n.k">>, cls |-> "odd"],
    [op |-> "unwind", field |-> "nope", cls |-> "odd"], [op |-> "unwind", field |-> "x", cls |-> "odd"], [op |-> "unwind", field |-> "$q.l", cls |-> "odd"],
    [op |-> "unwind", field |-> "", cls |-> "odd"], [op |-> "unwind", field |-> "_gid", cls |-> "odd"],
    \* c: aggregations
    Agg(<<>>), Agg(<<[name |-> "a", t |-> "count"], [name |-> "a", t |-> "count"]>>),
    Agg(<<[name |-> "a", t |-> "term", field |-> "x", size |-> 0], [name |-> "a", t |-> "histogram", field |-> "x", interval |-> 1]>>),
    Agg(<<[name |-> "a", t |-> "none"]>>), Agg(<<[name |-> "", t |-> "count"]>>),
    Agg(<<[name |-> "a", t |-> "histogram", field |-> "x", interval |-> 0]>>),
    Agg(<<[name |-> "a", t |-> "histogram", field |-> "nope", interval |-> 2]>>),
    Agg(<<[name |-> "a", t |-> "histogram", field |-> "s", interval |-> 2]>>),
    Agg(<<[name |-> "a", t |-> "percentile", field |-> "x", percents |-> <<>>]>>),
    Agg(<<[name |-> "a", t |-> "percentile", field |-> "nope", percents |-> <<50>>]>>),
    Agg(<<[name |-> "a", t |-> "percentile", field |-> "x", percents |-> <<-5, 500>>]>>),
    Agg(<<[name |-> "a", t |-> "term", field |-> "$q.x", size |-> 1]>>),
    Agg(<<[name |-> "a", t |-> "term", field |-> "l", size |-> 0]>>),
    Agg(<<[name |-> "a", t |-> "term", field |-> "n", size |-> 0]>>), Agg(<<[name |-> "a", t |-> "term", field |-> "_data", size |-> 2]>>),
    Agg(<<[name |-> "a", t |-> "term", field |-> "$", size |-> 0]>>), Agg(<<[name |-> "a", t |-> "histogram", field |-> "n", interval |-> 1]>>),
    Agg(<<[name |-> "a", t |-> "percentile", field |-> "_data", percents |-> <<50>>]>>), Agg(<<[name |-> "a", t |-> "type", field |-> "n"]>>),
    Agg(<<[name |-> "a", t |-> "field", field |-> "_data"]>>), Agg(<<[name |-> "a", t |-> "field", field |-> "n"]>>),
    Agg(<<[name |-> "a", t |-> "field", field |-> "x"]>>), Agg(<<[name |-> "a", t |-> "field", field |-> ""]>>),
    Agg(<<[name |-> "a", t |-> "type", field |-> "$q.x"]>>),
    \* d: ranges
    [op |-> "range", a |-> -1, b |-> 2, cls |-> "odd"], [op |-> "range", a |-> 2, b |-> 1, cls |-> "odd"], [op |-> "range", a |-> 0, b |-> -2, cls |-> "odd"],
    [op |-> "range", a |-> -3, b |-> -1, cls |-> "odd"], [op |-> "limit", n |-> 0, cls |-> "odd"], [op |-> "skip", n |-> 2000000000, cls |-> "odd"],
    \* e: null-producing steps
    [op |-> "outNull", labels |-> <<>>, cls |-> "odd"], [op |-> "inNull", labels |-> <<"X">>, cls |-> "odd"],
    [op |-> "outENull", labels |-> <<"X">>, cls |-> "odd"], [op |-> "inENull", labels |-> <<>>, cls |-> "odd"],
    \* f: loops
    [op |-> "jump", mark |-> "nowhere", emit |-> TRUE, cls |-> "odd"], [op |-> "mark", name |-> "lonely", cls |-> "odd"],
    [op |-> "set", key |-> "$q.c", value |-> N(0), cls |-> "odd"], [op |-> "set", key |-> "", value |-> Null, cls |-> "odd"],
    [op |-> "set", key |-> "_gid", value |-> L(<<N(1)>>), cls |-> "odd"],
    [op |-> "increment", key |-> "$q.c", n |-> 1, cls |-> "odd"], [op |-> "increment", key |-> "s", n |-> 1, cls |-> "odd"],
    [op |-> "increment", key |-> "", n |-> -1, cls |-> "odd"],
    \* wrongly named / empty arguments
    [op |-> "as", name |-> "", cls |-> "odd"], [op |-> "hasLabel", labels |-> <<>>, cls |-> "odd"], [op |-> "hasId", ids |-> <<>>, cls |-> "odd"],
    [op |-> "select", marks |-> <<>>, cls |-> "odd"], [op |-> "V", ids |-> <<"a">>, cls |-> "odd"], [op |-> "E", ids |-> <<>>, cls |-> "odd"] }

Core == { Mov("out", <<>>), Mov("outE", <<>>), Mov("both", <<>>), Mov("bothE", <<"K1">>), Mov("in", <<>>),
          Has(Cnd("eq", "x", N(1))), [op |-> "as", name |-> "m", cls |-> "core"], [op |-> "select", marks |-> <<"m">>, cls |-> "core"],
          St("count"), [op |-> "limit", n |-> 1, cls |-> "core"], St("path"),
          [op |-> "render", tpl |-> M([g |-> S("_gid"), v |-> S("x")]), cls |-> "core"],
          [op |-> "fields", fields |-> <<"x">>, cls |-> "core"], [op |-> "distinct", fields |-> <<"x">>, cls |-> "core"],
          [op |-> "unwind", field |-> "l", cls |-> "core"], [op |-> "hasKey", keys |-> <<"x">>, cls |-> "core"],
          [op |-> "hasLabel", labels |-> <<"L1">>, cls |-> "core"],
          Agg(<<[name |-> "c", t |-> "count"]>>) }

All == Grid \cup Odd \cup Core
Starts == { [op |-> "V", ids |-> <<>>, cls |-> "core"], [op |-> "E", ids |-> <<>>, cls |-> "core"],
            [op |-> "V", ids |-> <<"a", "zz">>, cls |-> "core"] }
OddStarts == { [op |-> "V", ids |-> <<"">>, cls |-> "odd"], Mov("out", <<>>), St("count"),
               [op |-> "jump", mark |-> "nowhere", emit |-> FALSE, cls |-> "odd"], [op |-> "mark", name |-> "x", cls |-> "odd"] }

NullOps == {"outNull", "inNull", "outENull", "inENull"}
GridLite == { Has(Cnd(op, k, a)) : op \in {"within", "eq", "inside"}, k \in {"_gid", "x"}, a \in {S("a"), N(1), L(<<N(1)>>)} }

Init == gi \in GraphIdx /\ up = TRUE /\ \E s \in Starts \cup OddStarts : prog = <<s>>

\* Shape of the space: every statement directly after every start; pairs (odd|core) x (odd|core|lite grid)
\* and grid x core; longer requests only in simulation (Deep).  Requests whose first statement is not
\* V/E are rejected by validation and are not extended; the empty graph gets one statement.
Extend(s) ==
  /\ Len(prog) <= (IF Len(prog) >= 2 /\ prog[2].op \in NullOps THEN MaxLen + 1 ELSE MaxLen)
  /\ prog[1] \in Starts
  /\ (gi = 1 => Len(prog) = 1)
  /\ \/ Len(prog) = 1
     \/ Deep
     \/ (Len(prog) = 2 /\ prog[2].cls # "grid" /\ (s.cls # "grid" \/ s \in GridLite))
     \/ (Len(prog) = 2 /\ prog[2].cls = "grid" /\ s \in Core)
     \/ (Len(prog) = 2 /\ prog[2].op \in NullOps /\ s = [op |-> "as", name |-> "m", cls |-> "core"])
     \/ (Len(prog) = 3 /\ prog[2].op \in NullOps /\ prog[3].op = "as" /\ s.cls # "grid")
  /\ prog' = Append(prog, s)
  /\ UNCHANGED <<gi, up>>     \* whatever the request, the server stays up
Next == \E s \in All : Extend(s)
Spec == Init /\ [][Next]_vars

AlwaysUp == up = TRUE

EmitStep(s) == [f \in (DOMAIN s) \ {"cls"} |-> s[f]]
EmitReq == Emit("req", [g |-> gi, prog |-> [i \in DOMAIN prog |-> EmitStep(prog[i])]])
EmitGraphs == Emit("graphs", [i \in DOMAIN GraphFamily |-> [V |-> GraphFamily[i].V, E |-> GraphFamily[i].E]])
ASSUME EmitGraphs
=======================================================================
