CONSTANTS
 MaxLen = 2
 GridArgs = "small"
 Deep = FALSE
 GraphIdx = {1, 7, 8}
SPECIFICATION Spec
INVARIANT AlwaysUp
INVARIANT EmitReq
CHECK_DEADLOCK FALSE
