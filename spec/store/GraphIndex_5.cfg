CONSTANT HistLen = 5
SPECIFICATION IxSpec
INVARIANT IxTypeOK
INVARIANT EmitIx
PROPERTY IxIsolation
PROPERTY IxNoResurrection
CHECK_DEADLOCK FALSE
