CONSTANT Alpha = "mc"
CONSTANT HistLen = 0
CONSTANT Started = TRUE
SPECIFICATION Spec
INVARIANT OneHome RouteHome Listed SchemaGraphProtected SchemaGraphsInDefault
PROPERTY Isolation RejectedNoEffect CascadeDefault
CHECK_DEADLOCK FALSE
