CONSTANT Alpha = "full"
CONSTANT HistLen = 10
CONSTANT Started = TRUE
SPECIFICATION Spec
INVARIANT EmitHist
CHECK_DEADLOCK FALSE
