CONSTANT Alpha = "full"
CONSTANT HistLen = 2
CONSTANT Started = FALSE
SPECIFICATION Spec
INVARIANT EmitHist
CHECK_DEADLOCK FALSE
