CONSTANT HistLen = 3
SPECIFICATION Spec
INVARIANT EmitHist
CHECK_DEADLOCK FALSE
