CONSTANT HistLen = 5
SPECIFICATION LifeSpec
INVARIANT EmitHist
CHECK_DEADLOCK FALSE
