CONSTANT HistLen = 14
SPECIFICATION Spec
INVARIANT EmitHist
CHECK_DEADLOCK FALSE
