CONSTANT Alpha = "full"
CONSTANT HistLen = 3
CONSTANT Started = TRUE
SPECIFICATION Spec
INVARIANT EmitHist
CHECK_DEADLOCK FALSE
