----------------------------- MODULE GraphLife -----------------------------
(* C03, deeper histories over a small call alphabet around life cycles:   *)
(* create / fill / delete / re-create.  What a deleted graph or element   *)
(* leaves behind must not come back when the same name or id is used      *)
(* again (ghost adjacency entries, label-index entries, stale records).   *)
(* Same abstract store and history format as GraphStore.tla.              *)
EXTENDS GraphStore

LifeCalls == { [op |-> "AddGraph", g |-> "g1"], [op |-> "DeleteGraph", g |-> "g1"], [op |-> "AddGraph", g |-> "g2"],
               Call1("AddVertex", "g1", VE(VRec("a", "L1", D1))), Call1("AddVertex", "g1", VE(VRec("b", "L2", D0))),
               Call1("AddEdge", "g1", EE(ERec("e1", "K1", "a", "b", D1))), Call1("AddEdge", "g2", EE(ERec("e1", "K1", "a", "a", D0))),
               [op |-> "DelVertex", g |-> "g1", id |-> "a"], [op |-> "DelEdge", g |-> "g1", id |-> "e1"] }

ASSUME LifeCalls \subseteq Calls \cup { Call1("AddVertex", "g1", VE(VRec("a", "L1", D1))) }

LifeNext == (Len(hist) < HistLen /\ \E c \in LifeCalls : Do(c)) \/ Finish
LifeSpec == Init /\ [][LifeNext]_vars
=============================================================================
