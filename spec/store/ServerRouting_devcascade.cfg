CONSTANT Alpha = "mc"
CONSTANT HistLen = 0
CONSTANT Started = TRUE
SPECIFICATION Spec
PROPERTY CascadeAll
CHECK_DEADLOCK FALSE
