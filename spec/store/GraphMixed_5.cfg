CONSTANT HistLen = 5
SPECIFICATION MixedSpec
INVARIANT EmitHist
CHECK_DEADLOCK FALSE
