--------------------------- MODULE GraphStore ---------------------------
(* C03 (abstract, property-level): the observable meaning of the graph   *)
(* mutation API.  A store is a function from the names of the existing   *)
(* graphs to abstract graphs [V, E] with last-write-wins elements;        *)
(* deleting a vertex removes its incident edges; graphs are isolated;     *)
(* invalid requests fail and change nothing; deleting something absent    *)
(* changes nothing.  Everything a client can observe is a state function  *)
(* (Obs).  `hist` records the calls with their specified result so that   *)
(* TLC's behaviours can be replayed on the real store.                    *)
EXTENDS Values, SequencesExt

CONSTANTS HistLen      \* 0: explore the bare state graph; n > 0: record histories up to n calls

VARIABLES gs, hist, fin
vars == <<gs, hist, fin>>

GraphNames == {"g1", "g2", "g3"}        \* g3 is never created
VIds == {"a", "b"}
D0 == EmptyMap
D1 == M([x |-> N(1)])

VRec(id, l, d)       == [id |-> id, label |-> l, data |-> d]
ERec(id, l, f, t, d) == [id |-> id, label |-> l, from |-> f, to |-> t, data |-> d]

EmptyG == [V |-> <<>>, E |-> <<>>]

------------------------------------------------------------------------
(* validity, as the property states it: blank ids/labels/endpoints,      *)
(* invalid graph or property names                                        *)
BadGraphNames == {"bad name", ""}
BadKeys == {"_gid", "_label", "_to", "_from", "_data", "a b", "_x"}
ValidV(v) == v.id # "" /\ v.label # "" /\ (DOMAIN v.data[2]) \cap BadKeys = {}
ValidE(e) == e.id # "" /\ e.label # "" /\ e.from # "" /\ e.to # "" /\ (DOMAIN e.data[2]) \cap BadKeys = {}

PutV(G, v) == [G EXCEPT !.V = [i \in DOMAIN G.V \cup {v.id} |->
                  IF i = v.id THEN [label |-> v.label, data |-> v.data] ELSE G.V[i]]]
PutE(G, e) == [G EXCEPT !.E = [i \in DOMAIN G.E \cup {e.id} |->
                  IF i = e.id THEN [label |-> e.label, from |-> e.from, to |-> e.to, data |-> e.data] ELSE G.E[i]]]
DropV(G, id) == [V |-> [i \in DOMAIN G.V \ {id} |-> G.V[i]],
                 E |-> [i \in {j \in DOMAIN G.E : G.E[j].from # id /\ G.E[j].to # id} |-> G.E[i]]]
DropE(G, id) == [G EXCEPT !.E = [i \in DOMAIN G.E \ {id} |-> G.E[i]]]

PutAll(G, elems) == LET f[i \in 0..Len(elems)] ==
                          IF i = 0 THEN G
                          ELSE IF elems[i].k = "v" THEN PutV(f[i - 1], elems[i].r) ELSE PutE(f[i - 1], elems[i].r)
                    IN f[Len(elems)]

SetG(s, g, G) == [n \in DOMAIN s \cup {g} |-> IF n = g THEN G ELSE s[n]]
DelG(s, g)    == [n \in DOMAIN s \ {g} |-> s[n]]

(* Eff(s, c) = <<new store, specified result>>; result "any" where the   *)
(* property only says "changes nothing"                                   *)
Eff(s, c) ==
  CASE c.op = "AddGraph" ->
         IF c.g \in BadGraphNames THEN <<s, "error">> ELSE <<SetG(s, c.g, EmptyG), "ok">>
    [] c.op = "DeleteGraph" ->
         IF c.g \in DOMAIN s THEN <<DelG(s, c.g), "ok">> ELSE <<s, "any">>
    [] c.op \in {"AddVertex", "AddEdge", "BulkAdd"} ->
         IF c.g \notin DOMAIN s THEN <<s, "error">>
         ELSE IF \A i \in DOMAIN c.elems : IF c.elems[i].k = "v" THEN ValidV(c.elems[i].r) ELSE ValidE(c.elems[i].r)
              THEN <<SetG(s, c.g, PutAll(s[c.g], c.elems)), "ok">>
              ELSE <<s, "error">>
    [] c.op = "DelVertex" ->
         IF c.g \notin DOMAIN s THEN <<s, "error">>
         ELSE IF c.id \in DOMAIN s[c.g].V THEN <<SetG(s, c.g, DropV(s[c.g], c.id)), "ok">> ELSE <<s, "any">>
    [] c.op = "DelEdge" ->
         IF c.g \notin DOMAIN s THEN <<s, "error">>
         ELSE IF c.id \in DOMAIN s[c.g].E THEN <<SetG(s, c.g, DropE(s[c.g], c.id)), "ok">> ELSE <<s, "any">>

------------------------------------------------------------------------
(* the calls explored                                                     *)
VE(r) == [k |-> "v", r |-> r]
EE(r) == [k |-> "e", r |-> r]
Call1(op, g, el) == [op |-> op, g |-> g, elems |-> <<el>>]
CallN(op, g, els) == [op |-> op, g |-> g, elems |-> els]

Ends == {<<"a", "b">>, <<"b", "a">>, <<"a", "a">>, <<"a", "z">>, <<"z", "a">>}

GraphCalls == { [op |-> "AddGraph", g |-> "g1"], [op |-> "AddGraph", g |-> "g2"], [op |-> "AddGraph", g |-> "bad name"],
                [op |-> "DeleteGraph", g |-> "g1"], [op |-> "DeleteGraph", g |-> "g2"], [op |-> "DeleteGraph", g |-> "g3"] }
VertexCalls == { Call1("AddVertex", "g1", VE(VRec(i, l, d))) : i \in VIds, l \in {"L1", "L2"}, d \in {D0, D1} }
               \cup { Call1("AddVertex", "g2", VE(VRec("a", "L1", D0))),
                      CallN("AddVertex", "g1", <<VE(VRec("a", "L1", D0)), VE(VRec("a", "L2", D1))>>),
                      CallN("AddVertex", "g1", <<VE(VRec("a", "L1", D1)), VE(VRec("b", "L2", D0))>>),
                      \* one id under three labels: stored and inside one batch
                      Call1("AddVertex", "g1", VE(VRec("a", "L3", D0))),
                      CallN("AddVertex", "g1", <<VE(VRec("a", "L1", D0)), VE(VRec("a", "L2", D0)), VE(VRec("a", "L3", D1))>>) }
EdgeCalls == { Call1("AddEdge", "g1", EE(ERec(i, l, x[1], x[2], D0))) : i \in {"e1", "e2"}, l \in {"K1", "K2"}, x \in Ends }
             \cup { Call1("AddEdge", "g1", EE(ERec("e1", "K1", "a", "b", D1))),
                    Call1("AddEdge", "g2", EE(ERec("e1", "K1", "a", "a", D0))),
                    CallN("AddEdge", "g1", <<EE(ERec("e1", "K1", "a", "b", D0)), EE(ERec("e1", "K2", "b", "a", D0))>>),
                    CallN("AddEdge", "g1", <<EE(ERec("e1", "K1", "a", "b", D0)), EE(ERec("e2", "K1", "a", "b", D1))>>) }
BulkCalls == { CallN("BulkAdd", "g1", <<VE(VRec("a", "L1", D0)), EE(ERec("e1", "K1", "a", "b", D0)), VE(VRec("b", "L2", D1))>>),
               CallN("BulkAdd", "g1", <<EE(ERec("e1", "K1", "a", "b", D0)), EE(ERec("e1", "K2", "a", "z", D1)), VE(VRec("a", "L2", D0))>>),
               CallN("BulkAdd", "g1", <<>>),
               CallN("BulkAdd", "g1", <<VE(VRec("a", "L3", D0)), VE(VRec("a", "L1", D0)), VE(VRec("a", "L2", D1))>>),
               CallN("BulkAdd", "g2", <<VE(VRec("a", "L1", D0)), EE(ERec("e1", "K1", "a", "a", D0))>>) }
DelCalls == { [op |-> "DelVertex", g |-> "g1", id |-> i] : i \in {"a", "b", "z"} }
            \cup { [op |-> "DelEdge", g |-> "g1", id |-> i] : i \in {"e1", "e2", "e9"} }
            \cup { [op |-> "DelVertex", g |-> "g2", id |-> "a"], [op |-> "DelEdge", g |-> "g2", id |-> "e1"],
                   [op |-> "DelVertex", g |-> "g3", id |-> "a"] }
InvalidCalls == { Call1("AddVertex", "g1", VE(VRec("", "L1", D0))), Call1("AddVertex", "g1", VE(VRec("a", "", D1))),
                  Call1("AddVertex", "g1", VE(VRec("a", "L2", M([k \in {"_gid"} |-> N(1)])))),
                  Call1("AddVertex", "g1", VE(VRec("b", "L2", M([k \in {"a b"} |-> N(1)])))),
                  Call1("AddVertex", "g3", VE(VRec("a", "L1", D0))),
                  Call1("AddEdge", "g1", EE(ERec("", "K1", "a", "b", D0))), Call1("AddEdge", "g1", EE(ERec("e1", "", "a", "b", D0))),
                  Call1("AddEdge", "g1", EE(ERec("e1", "K2", "", "b", D0))), Call1("AddEdge", "g1", EE(ERec("e2", "K2", "a", "", D0))),
                  Call1("AddEdge", "g1", EE(ERec("e1", "K2", "b", "a", M([k \in {"_label"} |-> S("q")])))) }
\* batches that mix valid and invalid elements: the call fails, and the property leaves open whether the valid
\* elements of the batch are stored (field alt of the history record) or nothing is (field after) - but one of the
\* two it must be: a re-labelled vertex, a re-routed edge of such a batch is either the old one or the new one
MixedCalls == { CallN("AddVertex", "g1", <<VE(VRec("a", "L2", D0)), VE(VRec("", "L1", D0))>>),
                CallN("AddVertex", "g1", <<VE(VRec("b", "", D0)), VE(VRec("a", "L1", D1))>>),
                CallN("AddEdge", "g1", <<EE(ERec("e1", "K2", "b", "a", D0)), EE(ERec("e2", "", "a", "b", D0))>>),
                CallN("AddEdge", "g1", <<EE(ERec("e2", "K1", "", "b", D0)), EE(ERec("e1", "K1", "a", "a", D0))>>) }
Calls == GraphCalls \cup VertexCalls \cup EdgeCalls \cup BulkCalls \cup DelCalls \cup InvalidCalls \cup MixedCalls

ValidEl(el) == IF el.k = "v" THEN ValidV(el.r) ELSE ValidE(el.r)
\* the other admissible state after a failed batch call: the valid elements stored
AltAfter(s, c, r) ==
  IF c.op \in {"AddVertex", "AddEdge"} /\ r[2] = "error" /\ c.g \in DOMAIN s /\ \E i \in DOMAIN c.elems : ValidEl(c.elems[i])
  THEN SetG(s, c.g, PutAll(s[c.g], SelectSeq(c.elems, ValidEl)))
  ELSE r[1]

\* re-creating an existing graph is not a documented operation: not explored
Enabled(c) == ~(c.op = "AddGraph" /\ c.g \in DOMAIN gs)

Init == gs = <<>> /\ hist = <<>> /\ fin = FALSE

Do(c) ==
  /\ Enabled(c) /\ UNCHANGED fin
  /\ LET r == Eff(gs, c) IN
       /\ gs' = r[1]
       /\ hist' = IF HistLen = 0 THEN hist
                  ELSE Append(hist, [call |-> c, res |-> r[2], after |-> r[1], alt |-> AltAfter(gs, c, r),
                                     changed |-> {g \in GraphNames : (g \in DOMAIN gs) # (g \in DOMAIN r[1])
                                                                      \/ (g \in DOMAIN gs /\ g \in DOMAIN r[1] /\ gs[g] # r[1][g])}])

\* a complete history is marked by a separate step: in -simulate mode TLC evaluates invariants on every
\* generated successor, so printing at Len(hist) = HistLen would print all 60 siblings of each walk
Finish == HistLen > 0 /\ Len(hist) = HistLen /\ ~fin /\ fin' = TRUE /\ UNCHANGED <<gs, hist>>
Next == ((HistLen = 0 \/ Len(hist) < HistLen) /\ \E c \in Calls : Do(c)) \/ Finish
Spec == Init /\ [][Next]_vars

------------------------------------------------------------------------
(* observations: everything the property calls observable                 *)
LabelOK(ls, l) == ls = <<>> \/ l \in SeqToSet(ls)
LabelOpts == << <<>>, <<"K1">>, <<"K1", "K2">>, <<"X">> >>
OutE(G, v, ls) == {e \in DOMAIN G.E : G.E[e].from = v /\ LabelOK(ls, G.E[e].label)}
InE(G, v, ls)  == {e \in DOMAIN G.E : G.E[e].to = v /\ LabelOK(ls, G.E[e].label)}
\* neighbour vertices as a bag: one entry (edge id, vertex id) per traversed edge whose far end exists
OutV(G, v, ls) == {<<e, G.E[e].to>> : e \in {x \in OutE(G, v, ls) : G.E[x].to \in DOMAIN G.V}}
InV(G, v, ls)  == {<<e, G.E[e].from>> : e \in {x \in InE(G, v, ls) : G.E[x].from \in DOMAIN G.V}}

ObsG(G) ==
  [V |-> G.V, E |-> G.E,
   vlabels |-> {G.V[i].label : i \in DOMAIN G.V},
   elabels |-> {G.E[i].label : i \in DOMAIN G.E},
   byLabel |-> [l \in {"L1", "L2", "L3", "X"} |-> {i \in DOMAIN G.V : G.V[i].label = l}],
   adj |-> [v \in VIds |-> [o \in DOMAIN LabelOpts |->
              [outE |-> OutE(G, v, LabelOpts[o]), inE |-> InE(G, v, LabelOpts[o]),
               out |-> OutV(G, v, LabelOpts[o]), in |-> InV(G, v, LabelOpts[o])]]]]
Obs(s) == [g \in DOMAIN s |-> ObsG(s[g])]

------------------------------------------------------------------------
(* properties of the abstract store itself                                *)
Isolation == [][\A c \in Calls : \A g \in GraphNames :
                  (Do(c) /\ g # c.g /\ g \in DOMAIN gs) => (g \in DOMAIN gs' /\ gs'[g] = gs[g])]_vars
NoDanglingAfterCascade ==
  \A g \in DOMAIN gs : TRUE   \* edges may legitimately name absent endpoints (they can be added that way)
TypeInv == /\ DOMAIN gs \subseteq {"g1", "g2"}
           /\ \A g \in DOMAIN gs : DOMAIN gs[g].V \subseteq VIds /\ DOMAIN gs[g].E \subseteq {"e1", "e2"}

------------------------------------------------------------------------
EmitObs  == HistLen = 0 => Emit("obs", [state |-> gs, obs |-> Obs(gs)])
EmitHist == fin => Emit("hist", hist)
=======================================================================
