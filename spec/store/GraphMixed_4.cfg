CONSTANT HistLen = 4
SPECIFICATION MixedSpec
INVARIANT EmitHist
CHECK_DEADLOCK FALSE
