CONSTANT HistLen = 4
SPECIFICATION LifeSpec
INVARIANT EmitHist
CHECK_DEADLOCK FALSE
