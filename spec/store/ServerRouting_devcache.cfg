CONSTANT Alpha = "mc"
CONSTANT HistLen = 0
CONSTANT Started = TRUE
SPECIFICATION Spec
INVARIANT CacheMatchesStore
CHECK_DEADLOCK FALSE
