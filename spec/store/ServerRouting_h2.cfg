CONSTANT Alpha = "full"
CONSTANT HistLen = 2
CONSTANT Started = TRUE
SPECIFICATION Spec
INVARIANT EmitHist
CHECK_DEADLOCK FALSE
