CONSTANT HistLen = 0
SPECIFICATION Spec
INVARIANT TypeInv
INVARIANT EmitObs
PROPERTY Isolation
CHECK_DEADLOCK FALSE
