CONSTANT HistLen = 0
SPECIFICATION Spec
INVARIANT TypeInv
INVARIANT EmitObs
CHECK_DEADLOCK FALSE
