--------------------------- MODULE ServerRouting ---------------------------
(* The graph namespace of one GripServer, implementation-shaped: several   *)
(* drivers, the routing table graph -> driver (server.graphMap, recomputed *)
(* by updateGraphMap after AddGraph / DeleteGraph / AddMapping and once at *)
(* start-up), the configured routes (conf.Graphs), the default driver, the *)
(* stored schema graphs <g>__schema__ that AddSchema rebuilds, the write   *)
(* protection of schema graphs and the in-memory schema cache.  One action *)
(* per handler call; the order of the sub-steps inside a handler is the    *)
(* order of the code (server/api.go, server/metagraphs.go).                *)
(*                                                                          *)
(* What C03 says about it (checked on the model here, on the real server    *)
(* by replay): a graph lives in exactly one driver and every call reaches   *)
(* that driver (OneHome, RouteHome); existing graphs are listed and listed  *)
(* unconfigured graphs exist (Listed); a call changes the graph it names    *)
(* and, for DeleteGraph / AddSchema, the schema graph of that name, and     *)
(* nothing else (Isolation); rejected calls change nothing; the content of  *)
(* a graph is the last write per id.                                        *)
(*                                                                          *)
(* Named deviations, modelled as the code behaves and claimed by no         *)
(* property:                                                                *)
(*   CascadeWrongDriver  DeleteGraph(g) removes <g>__schema__ through the   *)
(*                       driver of g, although the schema graph was created *)
(*                       through the routing table (default driver): the    *)
(*                       schema graph of a graph on another driver survives *)
(*                       (CascadeAll fails, CascadeDefault holds);          *)
(*   StaleSchemaCache    DeleteGraph leaves the cached schema in memory: a  *)
(*                       re-created graph answers GetSchema with the schema *)
(*                       of its predecessor although <g>__schema__ is gone; *)
(*   ConfiguredListed    a configured graph is listed whether it exists or  *)
(*                       not.                                               *)
EXTENDS Values, SequencesExt, FiniteSets

CONSTANTS HistLen,   \* 0: bare state graph (properties); n > 0: histories of n calls for replay
          Alpha,     \* "mc": the reduced call alphabet of the exhaustive property check; "full": all calls (histories)
          Started    \* TRUE: the routing table was computed at start-up (Serve); FALSE: never before the first call

VARIABLES st,        \* driver -> (graph name -> [V : id -> label, E : id -> <<label, from, to>>])
          gmap,      \* graph name -> driver: the routing table
          sc,        \* graph name -> schema id: the in-memory schema cache
          hist, fin
vars == <<st, gmap, sc, hist, fin>>

Drivers == {"kv", "kv2"}
Default == "kv"
Conf == [g \in {"h1"} |-> "kv2"]

Base == {"g1", "h1", "g3"}                   \* g3 is never created
SchemaName(g) == CASE g = "g1" -> "g1__schema__" [] g = "h1" -> "h1__schema__" [] g = "g3" -> "g3__schema__" [] OTHER -> "none"
SchemaNames == {SchemaName(g) : g \in Base}
IsSchema(g) == g \in SchemaNames
AllNames == Base \cup SchemaNames
BadNames == {"bad name"}

EmptyG == [V |-> <<>>, E |-> <<>>]
\* the two schemas clients upload
Schema(id) == IF id = "S1" THEN [V |-> [i \in {"a"} |-> "L1"], E |-> <<>>]
              ELSE [V |-> [i \in {"a", "b"} |-> IF i = "a" THEN "L2" ELSE "L1"], E |-> [i \in {"e1"} |-> <<"K1", "a", "b">>]]

Put(f, k, v) == [x \in DOMAIN f \cup {k} |-> IF x = k THEN v ELSE f[x]]
Drop(f, k)   == [x \in DOMAIN f \ {k} |-> f[x]]

------------------------------------------------------------------------
(* a server state as a record, so that handlers compose                    *)
Route(m, g)     == IF g \in DOMAIN m THEN m[g] ELSE Default
Exists(s, g)    == g \in DOMAIN s.st[Route(s.m, g)]                    \* graphExists
Holders(t, g)   == {d \in Drivers : g \in DOMAIN t[d]}
\* updateGraphMap: the configured routes, overridden by what the drivers list
Refresh(t)      == [g \in DOMAIN Conf \cup UNION {DOMAIN t[d] : d \in Drivers} |->
                      IF Holders(t, g) # {} THEN CHOOSE d \in Holders(t, g) : TRUE ELSE Conf[g]]
Refreshed(s)    == [s EXCEPT !.m = Refresh(s.st)]

SetGraph(s, d, g, G) == [s EXCEPT !.st[d] = Put(@, g, G)]
DelGraph(s, d, g)    == [s EXCEPT !.st[d] = Drop(@, g)]

\* AddGraph: validate, route, create (an existing graph keeps its content), refresh
HAddGraph(s, g) ==
  IF g \in BadNames THEN <<s, "error">>
  ELSE LET d == Route(s.m, g) IN
       <<Refreshed(IF g \in DOMAIN s.st[d] THEN s ELSE SetGraph(s, d, g, EmptyG)), "ok">>

\* DeleteGraph: route, delete, then the schema graph: looked up through the routing table (graphExists)
\* but deleted through the driver of g (CascadeWrongDriver); refresh at the end
HDeleteGraph(s, g) ==
  LET d  == Route(s.m, g)
      s1 == DelGraph(s, d, g)
      sn == SchemaName(g)
      s2 == IF sn # "none" /\ Exists(s1, sn) THEN DelGraph(s1, d, sn) ELSE s1
  IN  <<Refreshed(s2), IF g \in DOMAIN s.st[d] THEN "ok" ELSE "any">>

\* the unprotected element writers (addVertex / addEdge)
PutVertex(s, g, id, l) ==
  LET d == Route(s.m, g) IN
  IF g \notin DOMAIN s.st[d] THEN <<s, "error">>
  ELSE <<[s EXCEPT !.st[d][g].V = Put(@, id, l)], "ok">>
PutEdge(s, g, id, e) ==
  LET d == Route(s.m, g) IN
  IF g \notin DOMAIN s.st[d] THEN <<s, "error">>
  ELSE <<[s EXCEPT !.st[d][g].E = Put(@, id, e)], "ok">>

HAddVertex(s, g, id, l) == IF IsSchema(g) THEN <<s, "error">> ELSE PutVertex(s, g, id, l)
HAddEdge(s, g, id, e)   == IF IsSchema(g) THEN <<s, "error">> ELSE PutEdge(s, g, id, e)
HDelVertex(s, g, id) ==
  LET d == Route(s.m, g) IN
  IF IsSchema(g) \/ g \notin DOMAIN s.st[d] THEN <<s, "error">>
  ELSE IF id \notin DOMAIN s.st[d][g].V THEN <<s, "any">>
  ELSE <<[s EXCEPT !.st[d][g] = [V |-> Drop(@.V, id),
                                 E |-> [e \in {x \in DOMAIN @.E : @.E[x][2] # id /\ @.E[x][3] # id} |-> @.E[e]]]], "ok">>
HDelEdge(s, g, id) ==
  LET d == Route(s.m, g) IN
  IF IsSchema(g) \/ g \notin DOMAIN s.st[d] THEN <<s, "error">>
  ELSE IF id \notin DOMAIN s.st[d][g].E THEN <<s, "any">>
  ELSE <<[s EXCEPT !.st[d][g].E = Drop(@, id)], "ok">>

\* addFullGraph: delete the previous graph of that name (through the handler), create it, fill it
AddFull(s, name, SG) ==
  LET s1 == IF Exists(s, name) THEN HDeleteGraph(s, name)[1] ELSE s
      s2 == HAddGraph(s1, name)[1]
      d  == Route(s2.m, name)
  IN  [s2 EXCEPT !.st[d][name] = SG]
HAddSchema(s, g, id) == <<[AddFull(s, SchemaName(g), Schema(id)) EXCEPT !.sc = Put(@, g, id)], "ok">>
HGetSchema(s, g) == IF ~Exists(s, g) THEN "notfound" ELSE IF g \in DOMAIN s.sc THEN s.sc[g] ELSE "notfound"

\* BulkAdd: elements of schema graphs and of graphs that cannot be opened are errors, the others are stored
BulkStep(acc, el) ==
  LET s == acc[1] IN
  IF IsSchema(el.g) \/ ~Exists(s, el.g) THEN <<s, acc[2], acc[3] + 1>>
  ELSE <<PutVertex(s, el.g, el.id, el.l)[1], acc[2] + 1, acc[3]>>
HBulkAdd(s, elems) ==
  LET f[i \in 0..Len(elems)] == IF i = 0 THEN <<s, 0, 0>> ELSE BulkStep(f[i - 1], elems[i])
      r == f[Len(elems)]
  IN  <<r[1], <<"counts", r[2], r[3]>>>>

Eff(s, c) ==
  CASE c.op = "AddGraph"    -> HAddGraph(s, c.g)
    [] c.op = "DeleteGraph" -> HDeleteGraph(s, c.g)
    [] c.op = "AddVertex"   -> HAddVertex(s, c.g, c.id, c.l)
    [] c.op = "AddEdge"     -> HAddEdge(s, c.g, c.id, <<c.l, c.from, c.to>>)
    [] c.op = "DelVertex"   -> HDelVertex(s, c.g, c.id)
    [] c.op = "DelEdge"     -> HDelEdge(s, c.g, c.id)
    [] c.op = "AddSchema"   -> HAddSchema(s, c.g, c.schema)
    [] c.op = "AddIndex"    -> <<s, IF IsSchema(c.g) \/ ~Exists(s, c.g) THEN "error" ELSE "ok">>
    [] c.op = "BulkAdd"     -> HBulkAdd(s, c.elems)

------------------------------------------------------------------------
(* the calls explored                                                     *)
BE(g, id, l) == [g |-> g, id |-> id, l |-> l]
AllCalls ==
       {[op |-> "AddGraph", g |-> g] : g \in {"g1", "h1", "g1__schema__", "bad name"}}
  \cup {[op |-> "DeleteGraph", g |-> g] : g \in {"g1", "h1", "g3", "g1__schema__", "h1__schema__"}}
  \cup {[op |-> "AddVertex", g |-> g, id |-> x[1], l |-> x[2]] : g \in {"g1", "h1", "g3", "g1__schema__"}, x \in {<<"a", "L1">>, <<"b", "L2">>}}
  \cup {[op |-> "DelVertex", g |-> g, id |-> "a"] : g \in {"g1", "h1", "g3", "g1__schema__"}}
  \cup {[op |-> "AddEdge", g |-> g, id |-> "e1", l |-> "K2", from |-> "b", to |-> "a"] : g \in {"g1", "g1__schema__"}}
  \cup {[op |-> "DelEdge", g |-> g, id |-> "e1"] : g \in {"g1", "h1__schema__"}}
  \cup {[op |-> "AddSchema", g |-> g, schema |-> x] : g \in {"g1", "h1", "g3"}, x \in {"S1", "S2"}}
  \cup {[op |-> "AddIndex", g |-> g] : g \in {"g1", "g1__schema__"}}
  \cup {[op |-> "BulkAdd", elems |-> x] : x \in {
          <<BE("g1", "a", "L2"), BE("g1__schema__", "b", "L1"), BE("g3", "a", "L1"), BE("h1", "b", "L1")>>,
          <<BE("h1", "a", "L1"), BE("h1__schema__", "a", "L2"), BE("g1", "b", "L2"), BE("h1", "a", "L2")>>,
          <<BE("g1__schema__", "a", "L2"), BE("g1__schema__", "b", "L2")>> }}

\* the exhaustive property check leaves out the second vertex, the edge calls, the uploads for the graph that never
\* exists and two of the three streams: every handler and every named deviation stays reachable
Calls == IF Alpha = "full" THEN AllCalls
         ELSE {c \in AllCalls : /\ c.op \notin {"AddEdge", "DelEdge", "AddIndex"}
                                /\ (c.op \in {"AddVertex", "DelVertex"} => c.id = "a" /\ c.g # "g3")
                                /\ (c.op = "AddSchema" => c.g # "g3")
                                /\ (c.op = "BulkAdd" => Len(c.elems) = 4 /\ c.elems[1].g = "g1")}

\* re-creating an existing graph is not a documented operation: not explored
Enabled(c) == ~(c.op = "AddGraph" /\ c.g \notin BadNames /\ Exists([st |-> st, m |-> gmap, sc |-> sc], c.g))

S0 == [st |-> [d \in Drivers |-> <<>>], m |-> <<>>, sc |-> <<>>]
Init == /\ st = S0.st /\ sc = <<>> /\ hist = <<>> /\ fin = FALSE
        /\ gmap = IF Started THEN Refresh(S0.st) ELSE <<>>

Cur == [st |-> st, m |-> gmap, sc |-> sc]

\* everything a client can observe
Obs(s) == [listed |-> DOMAIN s.m,
           graphs |-> [n \in AllNames |-> IF Exists(s, n) THEN <<"graph", s.st[Route(s.m, n)][n]>> ELSE <<"absent">>],
           schema |-> [g \in Base |-> HGetSchema(s, g)],
           \* not client-visible (the drivers are asked directly): which driver holds which graph
           homes  |-> [n \in AllNames |-> Holders(s.st, n)]]

Do(c) ==
  /\ Enabled(c) /\ UNCHANGED fin
  /\ LET r == Eff(Cur, c) IN
       /\ st' = r[1].st /\ gmap' = r[1].m /\ sc' = r[1].sc
       /\ hist' = IF HistLen = 0 THEN hist ELSE Append(hist, [call |-> c, res |-> r[2], obs |-> Obs(r[1])])

Finish == HistLen > 0 /\ Len(hist) = HistLen /\ ~fin /\ fin' = TRUE /\ UNCHANGED <<st, gmap, sc, hist>>
Next == ((HistLen = 0 \/ Len(hist) < HistLen) /\ \E c \in Calls : Do(c)) \/ Finish
Spec == Init /\ [][Next]_vars

------------------------------------------------------------------------
(* properties                                                             *)
OneHome   == \A n \in AllNames : Cardinality(Holders(st, n)) <= 1
RouteHome == \A d \in Drivers : \A n \in DOMAIN st[d] : Route(gmap, n) = d
\* once the table has been computed: existing graphs are listed; a listed graph exists or is configured
Listed    == (Started \/ gmap # <<>>) =>
                /\ \A d \in Drivers : DOMAIN st[d] \subseteq DOMAIN gmap
                /\ \A n \in DOMAIN gmap : Holders(st, n) # {} \/ n \in DOMAIN Conf
\* a schema graph only ever holds an uploaded schema (or nothing, when it was created by hand)
SchemaGraphProtected ==
  \A n \in SchemaNames : \A d \in Holders(st, n) : st[d][n] \in {EmptyG, Schema("S1"), Schema("S2")}
\* the schema graphs live where the routing table puts an unknown name: in the default driver
SchemaGraphsInDefault == \A n \in SchemaNames : Holders(st, n) \subseteq {Default}

Content(t, n) == IF Holders(t, n) = {} THEN <<"absent">> ELSE <<"graph", t[CHOOSE d \in Holders(t, n) : TRUE][n]>>
Touched(c) == IF c.op = "BulkAdd" THEN {c.elems[i].g : i \in DOMAIN c.elems}
              ELSE IF c.op \in {"DeleteGraph", "AddSchema"} THEN {c.g, SchemaName(c.g)} \ (IF c.op = "AddSchema" THEN {c.g} ELSE {})
              ELSE {c.g}
Isolation == [][\A c \in Calls : Do(c) => \A n \in AllNames \ Touched(c) : Content(st', n) = Content(st, n)]_vars
\* a rejected call changes nothing
RejectedNoEffect == [][\A c \in Calls : (Do(c) /\ c.op # "BulkAdd" /\ Eff(Cur, c)[2] = "error") => (st' = st /\ sc' = sc)]_vars
\* the cascade of DeleteGraph: holds for graphs of the default driver, fails for the others (CascadeWrongDriver)
CascadeDefault == [][\A c \in Calls : (Do(c) /\ c.op = "DeleteGraph" /\ Route(gmap, c.g) = Default /\ SchemaName(c.g) # "none")
                        => Holders(st', SchemaName(c.g)) = {}]_vars
CascadeAll     == [][\A c \in Calls : (Do(c) /\ c.op = "DeleteGraph" /\ SchemaName(c.g) # "none")
                        => Holders(st', SchemaName(c.g)) = {}]_vars
\* the cache names the stored schema graph: fails after DeleteGraph (StaleSchemaCache)
CacheMatchesStore == \A g \in DOMAIN sc : Content(st, SchemaName(g)) = <<"graph", Schema(sc[g])>>

EmitHist == fin => Emit("rhist", [started |-> Started, hist |-> hist])
=======================================================================
