CONSTANT HistLen = 4
SPECIFICATION IxSpec
INVARIANT IxTypeOK
INVARIANT EmitIx
PROPERTY IxIsolation
PROPERTY IxNoResurrection
CHECK_DEADLOCK FALSE
