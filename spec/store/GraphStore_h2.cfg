CONSTANT HistLen = 2
SPECIFICATION Spec
INVARIANT EmitHist
CHECK_DEADLOCK FALSE
