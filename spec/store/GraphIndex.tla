----------------------------- MODULE GraphIndex -----------------------------
(* Growth beyond the listed observables of C03: the vertex-field index       *)
(* registrations of a graph (AddIndex / DeleteIndex / ListIndices of the     *)
(* Edit and Query services, gdbi.GraphInterface.AddVertexIndex ...).         *)
(* A registration belongs to ONE graph: it is listed for that graph only,    *)
(* it disappears with the graph and it does not come back when a graph of    *)
(* the same name is created again.  Registering or removing an index never   *)
(* changes the stored elements (the abstract store `gs` is untouched), so    *)
(* every observation of GraphStore.tla is compared after these calls too.    *)
(*                                                                           *)
(* Named deviation of the implementation, modelled as it is: the listing     *)
(* reports only the first segment of a nested field path ("a.b" is listed    *)
(* as "a"); see Listed.                                                      *)
EXTENDS GraphStore

VARIABLES ix, ixh          \* ix: graph -> set of <<label, field>>; ixh: ix after every call of hist
ivars == <<vars, ix, ixh>>

IxPairs  == { <<"L1", "name">>, <<"L2", "name">>, <<"L1", "a.b">> }
IxGraphs == {"g1", "g2"}
IxCalls  == { [op |-> o, g |-> g, label |-> p[1], field |-> p[2]] : o \in {"AddIndex", "DeleteIndex"}, g \in IxGraphs, p \in IxPairs }
DataCalls == { [op |-> "AddGraph", g |-> "g1"], [op |-> "AddGraph", g |-> "g2"], [op |-> "DeleteGraph", g |-> "g1"],
               [op |-> "DeleteGraph", g |-> "g2"],
               Call1("AddVertex", "g1", VE(VRec("a", "L1", D1))), [op |-> "DelVertex", g |-> "g1", id |-> "a"] }

\* what ListIndices reports for a registration
FirstSeg(f) == IF f = "a.b" THEN "a" ELSE f
Listed(Regs) == { <<p[1], FirstSeg(p[2])>> : p \in Regs }

IxInit == Init /\ ix = <<>> /\ ixh = <<>>

KeepOn(f, D) == [g \in D |-> IF g \in DOMAIN f THEN f[g] ELSE {}]

DoData(c) ==
  /\ Do(c)
  /\ ix' = IF c.op = "DeleteGraph" /\ c.g \in DOMAIN gs
           THEN [g \in DOMAIN gs' |-> ix[g]]              \* registrations go with the graph
           ELSE KeepOn(ix, DOMAIN gs')                   \* a new graph starts without any
  /\ ixh' = Append(ixh, ix')

\* calls on a graph that does not exist: one representative
IxEnabled(c) == c.g \in DOMAIN gs \/ (c.label = "L1" /\ c.field = "name")

DoIx(c) ==
  /\ IxEnabled(c) /\ UNCHANGED <<gs, fin>>
  /\ LET ok == c.g \in DOMAIN gs
         p  == <<c.label, c.field>> IN
       /\ ix' = IF ~ok THEN ix
                ELSE IF c.op = "AddIndex" THEN [ix EXCEPT ![c.g] = @ \cup {p}]
                ELSE [ix EXCEPT ![c.g] = @ \ {p}]
       \* removing a registration that does not exist: the result is not specified, the state is
       /\ hist' = Append(hist, [call |-> c,
                                res |-> IF ~ok THEN "error" ELSE IF c.op = "DeleteIndex" /\ p \notin ix[c.g] THEN "any" ELSE "ok",
                                after |-> gs, changed |-> {}])
  /\ ixh' = Append(ixh, ix')

IxFinish == Finish /\ UNCHANGED <<ix, ixh>>
IxNext == (Len(hist) < HistLen /\ ((\E c \in DataCalls : DoData(c)) \/ (\E c \in IxCalls : DoIx(c)))) \/ IxFinish
IxSpec == IxInit /\ [][IxNext]_ivars

\* properties of the abstract registrations
IxTypeOK == DOMAIN ix = DOMAIN gs /\ \A g \in DOMAIN ix : ix[g] \subseteq IxPairs
IxIsolation == [][\A g \in DOMAIN gs \cap DOMAIN gs' : \A c \in IxCalls : (DoIx(c) /\ c.g # g) => ix'[g] = ix[g]]_ivars
IxNoResurrection == [][\A g \in DOMAIN gs' \ DOMAIN gs : ix'[g] = {}]_ivars

EmitIx == fin => Emit("ixhist", [hist |-> hist, ix |-> [i \in DOMAIN ixh |-> [g \in DOMAIN ixh[i] |-> Listed(ixh[i][g])]]])
=============================================================================
