----------------------------- MODULE GraphMixed -----------------------------
(* C03, batches that mix valid and invalid elements, reached from every     *)
(* small filled graph: the valid half of the batch re-labels a stored       *)
(* vertex, replaces a stored edge with other endpoints, or is new.  The      *)
(* call fails; nothing or the valid elements are stored (fields after /      *)
(* alt of the history record) - never a third state.  Same abstract store   *)
(* and history format as GraphStore.tla; the mixed call ends the history.   *)
EXTENDS GraphStore

FillCalls == { [op |-> "AddGraph", g |-> "g1"],
               Call1("AddVertex", "g1", VE(VRec("a", "L1", D1))), Call1("AddVertex", "g1", VE(VRec("b", "L2", D0))),
               Call1("AddEdge", "g1", EE(ERec("e1", "K1", "a", "b", D1))), Call1("AddEdge", "g1", EE(ERec("e2", "K1", "a", "b", D0))) }
ASSUME FillCalls \subseteq Calls

MixedNext == \/ (Len(hist) < HistLen - 1 /\ \E c \in FillCalls : Do(c))
             \/ (Len(hist) = HistLen - 1 /\ \E c \in MixedCalls : Do(c))
             \/ Finish
MixedSpec == Init /\ [][MixedNext]_vars
=============================================================================
