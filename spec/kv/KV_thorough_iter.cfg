\* exhaustive, thorough: every View session with up to 3 iterator calls
CONSTANTS
  StoreKeys <- KeysABC
  Targets <- TargetsABC
  Vals <- ValsEX
  MaxLen = 4
  Phased = FALSE
  InitFamily <- InitFew
  Ops <- OpsIterOnly
INIT Init
NEXT Next
INVARIANT TypeOK
INVARIANT ModelOK
INVARIANT EmitBeh
CHECK_DEADLOCK FALSE
