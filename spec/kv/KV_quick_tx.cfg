\* exhaustive, quick: every Update/BulkWrite session with up to 2 inner calls from each of the 8 initial contents
CONSTANTS
  StoreKeys <- KeysABC
  Targets <- TargetsABC
  Vals <- ValsEX
  MaxLen = 3
  Phased = FALSE
  InitFamily <- InitSubsets
  Ops <- OpsTxOnly
INIT Init
NEXT Next
INVARIANT TypeOK
INVARIANT ModelOK
INVARIANT EmitBeh
CHECK_DEADLOCK FALSE
