\* exhaustive, quick: every Update/BulkWrite session with up to 2 inner calls from each of 4 initial contents
CONSTANTS
  StoreKeys <- KeysABC
  Targets <- TargetsABC
  Vals <- ValsEX
  MaxLen = 3
  Phased = FALSE
  InitFamily <- InitFew
  Ops <- OpsTxOnly
INIT Init
NEXT Next
INVARIANT TypeOK
INVARIANT ModelOK
INVARIANT EmitBeh
CHECK_DEADLOCK FALSE
