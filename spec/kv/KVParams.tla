---------------------------- MODULE KVParams ----------------------------
(* Run-time parameters of KV.tla that the check driver may overwrite     *)
(* (lib/checks/c10.py writes its own copy of this module into the        *)
(* scratch directory of a TLC run).                                      *)
(*                                                                       *)
(* AvoidShapes: set of <<op, w>> call shapes that are not generated.     *)
(* Used for the second pass of the known-findings protocol (DESIGN 2.2): *)
(* the trigger shapes of listed known findings are avoided so that the   *)
(* rest of every history is still compared to full depth.                *)
AvoidShapes == {}
=========================================================================
