\* random walks (-simulate -depth 81): 40 calls over all keys of length <= 2 over {0x00,a,b}; Phased balances the call classes
CONSTANTS
  StoreKeys <- AllKeys
  Targets <- AllTargets
  Vals <- AllVals
  MaxLen = 40
  Phased = TRUE
  InitFamily <- InitEmpty
  Ops <- OpsAll
INIT Init
NEXT Next
INVARIANT TypeOK
INVARIANT ModelOK
INVARIANT EmitBeh
CHECK_DEADLOCK FALSE
