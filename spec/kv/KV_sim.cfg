\* random walks (-simulate -depth 83): 40 calls over all keys of length <= 2 over {0x00,a,b}; Phased balances the call classes
CONSTANTS
  StoreKeys <- AllKeys
  Targets <- AllTargets
  Vals <- AllVals
  MaxLen = 40
  Phased = TRUE
  InitFamily <- InitEmpty
  Ops <- OpsAll
INIT Init
NEXT Next
\* TypeOK/ModelOK are checked in the exhaustive configurations (the simulator would evaluate them on every generated successor)
INVARIANT EmitBeh
CHECK_DEADLOCK FALSE
