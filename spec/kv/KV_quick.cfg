\* exhaustive, quick: every pair of calls from each of the 8 subsets of {a,ab,b} as initial contents
CONSTANTS
  StoreKeys <- KeysABC
  Targets <- TargetsABC
  Vals <- ValsEX
  MaxLen = 2
  Phased = FALSE
  InitFamily <- InitSubsets
  Ops <- OpsAll
INIT Init
NEXT Next
INVARIANT TypeOK
INVARIANT ModelOK
INVARIANT EmitBeh
CHECK_DEADLOCK FALSE
