\* exhaustive, quick: every pair of calls from each of 4 initial contents over {a,ab,b}
CONSTANTS
  StoreKeys <- KeysABC
  Targets <- TargetsABC
  Vals <- ValsEX
  MaxLen = 2
  Phased = FALSE
  InitFamily <- InitFew
  Ops <- OpsAll
INIT Init
NEXT Next
INVARIANT TypeOK
INVARIANT ModelOK
INVARIANT EmitBeh
CHECK_DEADLOCK FALSE
