\* exhaustive, thorough: every Update/BulkWrite session with up to 3 inner calls
CONSTANTS
  StoreKeys <- KeysABC
  Targets <- TargetsABC
  Vals <- ValsEX
  MaxLen = 4
  Phased = FALSE
  InitFamily <- InitEmptyAndFull
  Ops <- OpsTxOnly
INIT Init
NEXT Next
INVARIANT TypeOK
INVARIANT ModelOK
INVARIANT EmitBeh
CHECK_DEADLOCK FALSE
