------------------------------- MODULE KV -------------------------------
(* C10 (first sentence): every embedded key-value driver, used through   *)
(* kvi.KVInterface, behaves as ONE ordered byte-string map.              *)
(*                                                                       *)
(* This is the property-level ("abstract") specification: a sorted map   *)
(* and the interface calls as actions.  It is not shaped like any of the *)
(* drivers.  Every action appends the call together with the answer the  *)
(* sorted map gives to `hist`; TLC prints complete histories             *)
(* (Emit("beh", ...)) and the harness replays them call by call on the   *)
(* real drivers.                                                         *)
(*                                                                       *)
(* Keys are sequences over 0..2 standing for the bytes 0x00, 'a', 'b'    *)
(* (TLC has no byte strings); the order is the lexicographic order,      *)
(* which is the byte order of the encoded keys.  Values are the strings  *)
(* "", "x", "y".                                                         *)
(*                                                                       *)
(* What a call answers (field r of a step):                              *)
(*   Get, it.Get, tx.Get      found(v) | absent   (absent = an error)    *)
(*   HasKey, tx.HasKey        true | false                               *)
(*   Set, Delete, DeletePrefix, tx.Set, tx.Delete, bulk.Set, View/Update *)
(*   /BulkWrite returning after a callback that returned nil   ok (nil)  *)
(*   Seek, SeekReverse, Next  the position reached, observed through     *)
(*                            Valid(), Key(), Value(): at(k, v) | inv    *)
(* An answer is a VALUE: what Key()/Value() returned at a position stays *)
(* what it was when the iterator moves on (the harness keeps every       *)
(* answer of a session and of a scan and reads it again at the end;      *)
(* kvgraph DelVertex collects the keys it iterates over).                *)
(* Steps flagged c carry the committed contents s (sorted) that a full   *)
(* forward scan View{Seek(""); Valid/Key/Value/Next ...} must return.    *)
(*                                                                       *)
(* Deliberately NOT specified (the interface does not promise it):       *)
(*   - the error result of Seek/SeekReverse/Next (position is observed   *)
(*     through Valid/Key/Value; drivers differ on error-at-end);         *)
(*   - Next/Key/Value on an iterator that is not valid or was never      *)
(*     positioned; SeekReverse with the empty target;                    *)
(*   - writes with the empty key (Badger and Bolt reject it);            *)
(*   - what an iterator opened inside an Update sees of that             *)
(*     transaction's own uncommitted writes (tx.View is only generated   *)
(*     while the transaction has written nothing);                       *)
(*   - the store after an Update/BulkWrite callback returned an error    *)
(*     ("Abort": terminal step, answer open);                            *)
(*   - top-level calls from inside a callback (Bolt would deadlock).     *)
EXTENDS Values, KVParams

CONSTANTS StoreKeys,   \* keys that may be written (non-empty sequences)
          Targets,     \* arguments of reads, seeks and prefix deletes
          Vals,        \* values
          MaxLen,      \* number of calls per history (after the preload)
          Phased,      \* TRUE: pick the call class first (balances -simulate)
          InitFamily,  \* set of initial contents, loaded by Set calls
          Ops          \* enabled call classes

VARIABLES store,  \* committed contents: StoreKeys -> Vals \cup {Absent}
          mode,   \* "top" | "view" | "upd" | "txview" | "bulk" | "end"
          it,     \* iterator of the open View: [st, dir, k]
          pend,   \* writes of the open Update/BulkWrite: StoreKeys -> Vals \cup {Absent, Untouched}
          hist,   \* the calls made so far, each with its answer
          n,      \* number of calls after the preload
          cls,    \* call class picked for the next call ("" = none; only if Phased)
          done    \* the history is complete and has been handed over (see Finish)
vars == <<store, mode, it, pend, hist, n, cls, done>>

Absent    == "ABSENT"
Untouched == "UNTOUCHED"

----------------------------------------------------------------------------
(* universes the configurations choose from                              *)
Alphabet   == 0..2
AllKeys    == { <<x>> : x \in Alphabet } \cup { <<x, y>> : x \in Alphabet, y \in Alphabet }
AllTargets == AllKeys \cup { <<>> }
AllVals    == { "", "x", "y" }
\* 'a', 'ab', 'b': a key, an extension of it, a later key
KeysABC    == { <<1>>, <<1, 2>>, <<2>> }
TargetsABC == KeysABC \cup { <<>> }
\* adds the 0x00 byte: 0x00, 'a', 'a' 0x00, 'ab', 'b'
KeysZ      == { <<0>>, <<1>>, <<1, 0>>, <<1, 2>>, <<2>> }
TargetsZ   == KeysZ \cup { <<>>, <<2, 2>> }
ValsEX     == { "", "x" }
OpsAll     == { "Get", "HasKey", "Set", "Delete", "DeletePrefix", "View", "Update", "Bulk",
                "Seek", "SeekReverse", "Next", "ItGet", "ViewEnd",
                "TxGet", "TxHasKey", "TxSet", "TxDelete", "TxView", "Commit", "Abort",
                "BulkSet", "BulkEnd", "BulkAbort" }
\* focused families for the exhaustive tiers: sessions only
OpsIterOnly == { "View", "Seek", "SeekReverse", "Next", "ItGet", "ViewEnd" }
OpsTxOnly   == { "Update", "TxGet", "TxHasKey", "TxSet", "TxDelete", "TxView", "Commit", "Abort",
                 "Bulk", "BulkSet", "BulkEnd", "BulkAbort" }

EmptyStore == [k \in StoreKeys |-> Absent]
InitEmpty  == { EmptyStore }
InitAll    == [StoreKeys -> Vals \cup {Absent}]
\* every subset of the keys present, values alternating (keeps the family small)
InitFew    == { [k \in StoreKeys |-> IF k \in KS THEN (IF Len(k) = 1 THEN "x" ELSE "") ELSE Absent] :
                  KS \in { {}, {<<1>>}, {<<1, 2>>, <<2>>}, StoreKeys } }
InitOne    == { [k \in StoreKeys |-> IF k = <<1>> THEN "x" ELSE IF k = <<1, 2>> THEN "" ELSE Absent] }
InitEmptyAndFull == { EmptyStore, [k \in StoreKeys |-> IF Len(k) = 1 THEN "x" ELSE ""] }
InitSubsets == { [k \in StoreKeys |-> IF k \in KS THEN (IF Len(k) = 1 THEN "x" ELSE "") ELSE Absent] : KS \in SUBSET StoreKeys }

----------------------------------------------------------------------------
(* the order: lexicographic on sequences = byte order on keys            *)
IsPrefix(p, k) == Len(p) <= Len(k) /\ \A i \in 1..Len(p) : p[i] = k[i]
LexLess(a, b) == \/ (Len(a) < Len(b) /\ IsPrefix(a, b))
                 \/ \E i \in 1..Len(a) : /\ i <= Len(b)
                                         /\ a[i] < b[i]
                                         /\ \A j \in 1..(i - 1) : a[j] = b[j]
LexLeq(a, b)  == a = b \/ LexLess(a, b)

Least(KS)    == CHOOSE k \in KS : \A j \in KS : LexLeq(k, j)
Greatest(KS) == CHOOSE k \in KS : \A j \in KS : LexLeq(j, k)

RECURSIVE KeySort(_)
KeySort(KS) == IF KS = {} THEN <<>> ELSE LET m == Least(KS) IN <<m>> \o KeySort(KS \ {m})
SortedStoreKeys == KeySort(StoreKeys)

\* the oracle's order must be a strict total order (guards against a slip above)
ASSUME \A a \in AllTargets, b \in AllTargets :
          /\ (a = b) = (~LexLess(a, b) /\ ~LexLess(b, a))
          /\ ~(LexLess(a, b) /\ LexLess(b, a))
ASSUME \A a \in AllTargets, b \in AllTargets, c \in AllTargets :
          (LexLess(a, b) /\ LexLess(b, c)) => LexLess(a, c)
ASSUME \A k \in StoreKeys : Len(k) >= 1
ASSUME StoreKeys \subseteq AllKeys /\ Targets \subseteq AllTargets /\ Vals \subseteq AllVals

----------------------------------------------------------------------------
(* the sorted map                                                        *)
Live(s)    == { k \in StoreKeys : s[k] # Absent }
Has(s, k)  == k \in StoreKeys /\ s[k] # Absent
Snapshot(s) == LET q == SelectSeq(SortedStoreKeys, LAMBDA k : s[k] # Absent)
               IN  [i \in 1..Len(q) |-> [k |-> q[i], v |-> s[q[i]]]]

\* least live key >= t / greatest live key <= t / neighbours; {} = none
GE(s, t) == { k \in Live(s) : LexLeq(t, k) }
LE(s, t) == { k \in Live(s) : LexLeq(k, t) }
GT(s, t) == { k \in Live(s) : LexLess(t, k) }
LT(s, t) == { k \in Live(s) : LexLess(k, t) }

FreshIt     == [st |-> "fresh", dir |-> "f", k |-> <<>>]
PosIt(KS, d, first) == IF KS = {} THEN [st |-> "inv", dir |-> d, k |-> <<>>]
                      ELSE [st |-> "at", dir |-> d, k |-> IF first THEN Least(KS) ELSE Greatest(KS)]
NoPend      == [k \in StoreKeys |-> Untouched]
Eff(k)      == IF pend[k] # Untouched THEN pend[k] ELSE store[k]
EffStore    == [k \in StoreKeys |-> Eff(k)]

----------------------------------------------------------------------------
(* steps and answers                                                     *)
R(t, k, v) == [t |-> t, k |-> k, v |-> v]
ROk     == R("ok", <<>>, "")
ROpen   == R("open", <<>>, "")
RBool(b) == R(IF b THEN "true" ELSE "false", <<>>, "")
RGet(s, k) == IF Has(s, k) THEN R("found", <<>>, s[k]) ELSE R("absent", <<>>, "")
RPos(s, i) == IF i.st = "at" THEN R("at", i.k, s[i.k]) ELSE R("inv", <<>>, "")

St(op, k, v, w, r)     == [op |-> op, k |-> k, v |-> v, w |-> w, r |-> r, c |-> FALSE, s |-> <<>>]
StC(op, k, v, w, r, s) == [op |-> op, k |-> k, v |-> v, w |-> w, r |-> r, c |-> TRUE, s |-> Snapshot(s)]

\* shape labels (coverage classes; also the unit of AvoidShapes)
PW(s, k)   == IF k = <<>> THEN "empty-key" ELSE IF Has(s, k) THEN "present" ELSE "absent"
PosW(s, t) == IF t = <<>> THEN (IF Live(s) = {} THEN "empty-target-empty-store" ELSE "empty-target")
              ELSE IF Live(s) = {} THEN "empty-store"
              ELSE IF t \in Live(s) THEN "exact"
              ELSE IF GT(s, t) = {} THEN "beyond-last"
              ELSE IF LT(s, t) = {} THEN "before-first"
              ELSE "between"
PrefW(s, p) == LET vic == { k \in Live(s) : IsPrefix(p, k) }
               IN  IF p = <<>> THEN (IF vic = {} THEN "empty-prefix-none" ELSE "empty-prefix-all")
                   ELSE IF vic = {} THEN "none" ELSE IF vic = Live(s) THEN "all" ELSE "some"
TxW(k)     == IF k = <<>> THEN "empty-key"
              ELSE IF k \notin StoreKeys THEN "absent"
              ELSE IF pend[k] = Untouched THEN (IF store[k] = Absent THEN "absent" ELSE "committed")
              ELSE IF pend[k] = Absent THEN "pending-del" ELSE "pending-set"
Ok(op, w)  == op \in Ops /\ <<op, w>> \notin AvoidShapes

----------------------------------------------------------------------------
(* call classes: Pick(c) holds when a call of class c may be made now    *)
Pick(c)  == n < MaxLen /\ (IF Phased THEN cls = c ELSE cls = "")
Push(st) == hist' = Append(hist, st) /\ n' = n + 1 /\ cls' = "" /\ done' = FALSE

\* ---- top level
GetC  == { k \in Targets : Ok("Get", PW(store, k)) }
HasC  == { k \in Targets : Ok("HasKey", PW(store, k)) }
SetC  == { kv \in StoreKeys \X Vals : Ok("Set", IF Has(store, kv[1]) THEN "overwrite" ELSE "insert") }
DelC  == { k \in StoreKeys : Ok("Delete", PW(store, k)) }
DelPC == { p \in Targets : Ok("DeletePrefix", PrefW(store, p)) }

Get == /\ mode = "top" /\ Pick("Get")
       /\ \E k \in GetC : Push(St("Get", k, "", PW(store, k), RGet(store, k)))
       /\ UNCHANGED <<store, mode, it, pend>>
HasKey == /\ mode = "top" /\ Pick("HasKey")
          /\ \E k \in HasC : Push(St("HasKey", k, "", PW(store, k), RBool(Has(store, k))))
          /\ UNCHANGED <<store, mode, it, pend>>
Set == /\ mode = "top" /\ Pick("Set")
       /\ \E kv \in SetC :
            LET s2 == [store EXCEPT ![kv[1]] = kv[2]]
            IN  /\ store' = s2
                /\ Push(StC("Set", kv[1], kv[2], IF Has(store, kv[1]) THEN "overwrite" ELSE "insert", ROk, s2))
       /\ UNCHANGED <<mode, it, pend>>
Delete == /\ mode = "top" /\ Pick("Delete")
          /\ \E k \in DelC :
               LET s2 == [store EXCEPT ![k] = Absent]
               IN  /\ store' = s2
                   /\ Push(StC("Delete", k, "", PW(store, k), ROk, s2))
          /\ UNCHANGED <<mode, it, pend>>
DeletePrefix == /\ mode = "top" /\ Pick("DeletePrefix")
                /\ \E p \in DelPC :
                     LET s2 == [k \in StoreKeys |-> IF IsPrefix(p, k) THEN Absent ELSE store[k]]
                     IN  /\ store' = s2
                         /\ Push(StC("DeletePrefix", p, "", PrefW(store, p), ROk, s2))
                /\ UNCHANGED <<mode, it, pend>>
ViewBegin == /\ mode = "top" /\ Pick("View") /\ Ok("View", "")
             /\ mode' = "view" /\ it' = FreshIt
             /\ Push(St("View", <<>>, "", "", ROk))
             /\ UNCHANGED <<store, pend>>
UpdBegin == /\ mode = "top" /\ Pick("Update") /\ Ok("Update", "")
            /\ mode' = "upd" /\ pend' = NoPend
            /\ Push(St("Update", <<>>, "", "", ROk))
            /\ UNCHANGED <<store, it>>
BulkBegin == /\ mode = "top" /\ Pick("Bulk") /\ Ok("Bulk", "")
             /\ mode' = "bulk" /\ pend' = NoPend
             /\ Push(St("Bulk", <<>>, "", "", ROk))
             /\ UNCHANGED <<store, it>>

\* ---- inside View (top-level View or tx.View of a transaction without writes)
InView == mode \in {"view", "txview"}
SeekC  == { t \in Targets : Ok("Seek", PosW(store, t)) }
SeekRC == { t \in Targets \ {<<>>} : Ok("SeekReverse", PosW(store, t)) }
NextS  == IF it.dir = "f" THEN GT(store, it.k) ELSE LT(store, it.k)
NextW  == IF it.dir = "f" THEN (IF NextS = {} THEN "fwd-end" ELSE "fwd-more")
                          ELSE (IF NextS = {} THEN "rev-end" ELSE "rev-more")
ItGetC == { k \in Targets : Ok("ItGet", PW(store, k)) }

Seek == /\ InView /\ Pick("Seek")
        /\ \E t \in SeekC :
             LET i2 == PosIt(GE(store, t), "f", TRUE)
             IN  /\ it' = i2
                 /\ Push(St("Seek", t, "", PosW(store, t), RPos(store, i2)))
        /\ UNCHANGED <<store, mode, pend>>
SeekReverse == /\ InView /\ Pick("SeekReverse")
               /\ \E t \in SeekRC :
                    LET i2 == PosIt(LE(store, t), "r", FALSE)
                    IN  /\ it' = i2
                        /\ Push(St("SeekReverse", t, "", PosW(store, t), RPos(store, i2)))
               /\ UNCHANGED <<store, mode, pend>>
NextOk == it.st = "at" /\ Ok("Next", NextW)
Next1 == /\ InView /\ Pick("Next") /\ NextOk
         /\ LET i2 == PosIt(NextS, it.dir, it.dir = "f")
            IN  /\ it' = i2
                /\ Push(St("Next", <<>>, "", NextW, RPos(store, i2)))
         /\ UNCHANGED <<store, mode, pend>>
ItGet == /\ InView /\ Pick("ItGet")
         /\ \E k \in ItGetC : Push(St("ItGet", k, "", PW(store, k), RGet(store, k)))
         /\ UNCHANGED <<store, mode, it, pend>>
ViewEnd == /\ InView /\ Pick("ViewEnd") /\ Ok("ViewEnd", "")
           /\ mode' = IF mode = "view" THEN "top" ELSE "upd"
           /\ it' = FreshIt
           /\ Push(St("ViewEnd", <<>>, "", "", ROk))
           /\ UNCHANGED <<store, pend>>

\* ---- inside Update: point reads see the transaction's own writes
TxGetC == { k \in Targets : Ok("TxGet", TxW(k)) }
TxHasC == { k \in Targets : Ok("TxHasKey", TxW(k)) }
TxSetC == { kv \in StoreKeys \X Vals : Ok("TxSet", TxW(kv[1])) }
TxDelC == { k \in StoreKeys : Ok("TxDelete", TxW(k)) }

TxGet == /\ mode = "upd" /\ Pick("TxGet")
         /\ \E k \in TxGetC : Push(St("TxGet", k, "", TxW(k), RGet(EffStore, k)))
         /\ UNCHANGED <<store, mode, it, pend>>
TxHasKey == /\ mode = "upd" /\ Pick("TxHasKey")
            /\ \E k \in TxHasC : Push(St("TxHasKey", k, "", TxW(k), RBool(Has(EffStore, k))))
            /\ UNCHANGED <<store, mode, it, pend>>
TxSet == /\ mode = "upd" /\ Pick("TxSet")
         /\ \E kv \in TxSetC : /\ pend' = [pend EXCEPT ![kv[1]] = kv[2]]
                               /\ Push(St("TxSet", kv[1], kv[2], TxW(kv[1]), ROk))
         /\ UNCHANGED <<store, mode, it>>
TxDelete == /\ mode = "upd" /\ Pick("TxDelete")
            /\ \E k \in TxDelC : /\ pend' = [pend EXCEPT ![k] = Absent]
                                 /\ Push(St("TxDelete", k, "", TxW(k), ROk))
            /\ UNCHANGED <<store, mode, it>>
TxViewOk == pend = NoPend /\ Ok("TxView", "")
TxViewBegin == /\ mode = "upd" /\ Pick("TxView") /\ TxViewOk
               /\ mode' = "txview" /\ it' = FreshIt
               /\ Push(St("TxView", <<>>, "", "", ROk))
               /\ UNCHANGED <<store, pend>>
\* the callback returns nil: Update returns nil and everything is visible
Commit == /\ mode = "upd" /\ Pick("Commit") /\ Ok("Commit", "")
          /\ store' = EffStore /\ mode' = "top" /\ pend' = NoPend
          /\ Push(StC("Commit", <<>>, "", IF pend = NoPend THEN "no-writes" ELSE "writes", ROk, EffStore))
          /\ UNCHANGED it
\* the callback returns an error: nothing is specified from here on
Abort == /\ mode = "upd" /\ Pick("Abort") /\ Ok("Abort", "")
         /\ mode' = "end"
         /\ Push(St("Abort", <<>>, "", IF pend = NoPend THEN "no-writes" ELSE "writes", ROpen))
         /\ UNCHANGED <<store, it, pend>>

\* ---- inside BulkWrite: sets only, visible after BulkWrite returned
BulkSetC == { kv \in StoreKeys \X Vals : Ok("BulkSet", IF pend[kv[1]] = Untouched THEN "first" ELSE "repeat-key") }
BulkSet == /\ mode = "bulk" /\ Pick("BulkSet")
           /\ \E kv \in BulkSetC : /\ pend' = [pend EXCEPT ![kv[1]] = kv[2]]
                                   /\ Push(St("BulkSet", kv[1], kv[2],
                                              IF pend[kv[1]] = Untouched THEN "first" ELSE "repeat-key", ROk))
           /\ UNCHANGED <<store, mode, it>>
BulkEnd == /\ mode = "bulk" /\ Pick("BulkEnd") /\ Ok("BulkEnd", "")
           /\ store' = EffStore /\ mode' = "top" /\ pend' = NoPend
           /\ Push(StC("BulkEnd", <<>>, "", IF pend = NoPend THEN "no-writes" ELSE "writes", ROk, EffStore))
           /\ UNCHANGED it
BulkAbort == /\ mode = "bulk" /\ Pick("BulkAbort") /\ Ok("BulkAbort", "")
             /\ mode' = "end"
             /\ Push(St("BulkAbort", <<>>, "", IF pend = NoPend THEN "no-writes" ELSE "writes", ROpen))
             /\ UNCHANGED <<store, it, pend>>

\* ---- class choice (Phased): only classes that have a call to make
ClassesNow ==
  IF mode = "top" THEN
       (IF GetC # {} THEN {"Get"} ELSE {}) \cup (IF HasC # {} THEN {"HasKey"} ELSE {})
       \cup (IF SetC # {} THEN {"Set"} ELSE {}) \cup (IF DelC # {} THEN {"Delete"} ELSE {})
       \cup (IF DelPC # {} THEN {"DeletePrefix"} ELSE {})
       \cup (IF Ok("View", "") THEN {"View"} ELSE {}) \cup (IF Ok("Update", "") THEN {"Update"} ELSE {})
       \cup (IF Ok("Bulk", "") THEN {"Bulk"} ELSE {})
  ELSE IF InView THEN
       (IF SeekC # {} THEN {"Seek"} ELSE {}) \cup (IF SeekRC # {} THEN {"SeekReverse"} ELSE {})
       \cup (IF NextOk THEN {"Next"} ELSE {}) \cup (IF ItGetC # {} THEN {"ItGet"} ELSE {})
       \cup (IF Ok("ViewEnd", "") THEN {"ViewEnd"} ELSE {})
  ELSE IF mode = "upd" THEN
       (IF TxGetC # {} THEN {"TxGet"} ELSE {}) \cup (IF TxHasC # {} THEN {"TxHasKey"} ELSE {})
       \cup (IF TxSetC # {} THEN {"TxSet"} ELSE {}) \cup (IF TxDelC # {} THEN {"TxDelete"} ELSE {})
       \cup (IF TxViewOk THEN {"TxView"} ELSE {}) \cup (IF Ok("Commit", "") THEN {"Commit"} ELSE {})
       \* an abort ends the history: offered on every fifth call only, so that walks live longer
       \cup (IF Ok("Abort", "") /\ n % 5 = 4 THEN {"Abort"} ELSE {})
  ELSE IF mode = "bulk" THEN
       (IF BulkSetC # {} THEN {"BulkSet"} ELSE {}) \cup (IF Ok("BulkEnd", "") THEN {"BulkEnd"} ELSE {})
       \cup (IF Ok("BulkAbort", "") /\ n % 5 = 4 THEN {"BulkAbort"} ELSE {})
  ELSE {}
Choose == /\ Phased /\ cls = "" /\ n < MaxLen
          /\ cls' \in ClassesNow
          /\ UNCHANGED <<store, mode, it, pend, hist, n, done>>

----------------------------------------------------------------------------
Preload(f) == LET q == SelectSeq([i \in 1..Len(SortedStoreKeys) |-> SortedStoreKeys[Len(SortedStoreKeys) + 1 - i]],
                                 LAMBDA k : f[k] # Absent)
              IN  [i \in 1..Len(q) |->
                     StC("Set", q[i], f[q[i]], "insert", ROk,
                         [k \in StoreKeys |-> IF \E j \in 1..i : q[j] = k THEN f[k] ELSE Absent])]

Init == /\ store \in InitFamily
        /\ hist = Preload(store)
        /\ mode = "top" /\ it = FreshIt /\ pend = NoPend /\ n = 0 /\ cls = "" /\ done = FALSE

(* A history is complete when it has MaxLen calls or ended in an abort.  *)
(* Finish is the only step out of a complete history; the history is     *)
(* printed in the state it leads to.  (In -simulate mode TLC evaluates   *)
(* invariants on every successor it generates, not only on the one the   *)
(* walk takes: printing at the successor of the leaf prints exactly the  *)
(* walks.)                                                               *)
IsLeaf == (n = MaxLen \/ mode = "end") /\ cls = "" /\ ~done
Finish == /\ IsLeaf
          /\ done' = TRUE
          /\ UNCHANGED <<store, mode, it, pend, hist, n, cls>>

Next == \/ Choose \/ Finish
        \/ Get \/ HasKey \/ Set \/ Delete \/ DeletePrefix \/ ViewBegin \/ UpdBegin \/ BulkBegin
        \/ Seek \/ SeekReverse \/ Next1 \/ ItGet \/ ViewEnd
        \/ TxGet \/ TxHasKey \/ TxSet \/ TxDelete \/ TxViewBegin \/ Commit \/ Abort
        \/ BulkSet \/ BulkEnd \/ BulkAbort

Spec == Init /\ [][Next]_vars

----------------------------------------------------------------------------
(* sanity of the oracle itself                                           *)
TypeOK == /\ store \in [StoreKeys -> Vals \cup {Absent}]
          /\ pend \in [StoreKeys -> Vals \cup {Absent, Untouched}]
          /\ mode \in {"top", "view", "upd", "txview", "bulk", "end"}
          /\ it.st \in {"fresh", "at", "inv"} /\ it.dir \in {"f", "r"}
          /\ n \in 0..MaxLen /\ done \in BOOLEAN
ModelOK == /\ it.st = "at" => it.k \in Live(store)
           /\ mode \in {"top", "view"} => pend = NoPend
           /\ mode = "txview" => pend = NoPend
           \* seek duality: nothing lives strictly between a target and the position reached
           /\ \A t \in Targets :
                /\ GE(store, t) # {} => LT(store, Least(GE(store, t))) \cap GE(store, t) = {}
                /\ LE(store, t) # {} => GT(store, Greatest(LE(store, t))) \cap LE(store, t) = {}
           \* the snapshot is strictly ascending and complete
           /\ LET sn == Snapshot(store)
              IN  /\ Len(sn) = Cardinality(Live(store))
                  /\ \A i \in 1..(Len(sn) - 1) : LexLess(sn[i].k, sn[i + 1].k)

(* emission of complete histories.  An open session at the end is       *)
(* closed by the harness with a nil return (commit): f is the committed  *)
(* contents after that, fo = TRUE when they are open (abort).            *)
EmitBeh == done => Emit("beh", [h  |-> hist,
                                  m  |-> mode,
                                  fo |-> (mode = "end"),
                                  f  |-> Snapshot(IF mode \in {"upd", "txview", "bulk"} THEN EffStore ELSE store)])
=========================================================================
