\* exhaustive, thorough: every triple of calls from 4 initial contents
CONSTANTS
  StoreKeys <- KeysABC
  Targets <- TargetsABC
  Vals <- ValsEX
  MaxLen = 3
  Phased = FALSE
  InitFamily <- InitFew
  Ops <- OpsAll
INIT Init
NEXT Next
INVARIANT TypeOK
INVARIANT ModelOK
INVARIANT EmitBeh
CHECK_DEADLOCK FALSE
