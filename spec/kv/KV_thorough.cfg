\* exhaustive, thorough: every triple of calls from the contents {a:x, ab:''}
CONSTANTS
  StoreKeys <- KeysABC
  Targets <- TargetsABC
  Vals <- ValsEX
  MaxLen = 3
  Phased = FALSE
  InitFamily <- InitOne
  Ops <- OpsAll
INIT Init
NEXT Next
INVARIANT TypeOK
INVARIANT ModelOK
INVARIANT EmitBeh
CHECK_DEADLOCK FALSE
