\* exhaustive, thorough: every pair of calls over keys with the 0x00 byte
CONSTANTS
  StoreKeys <- KeysZ
  Targets <- TargetsZ
  Vals <- ValsEX
  MaxLen = 2
  Phased = FALSE
  InitFamily <- InitEmptyAndFull
  Ops <- OpsAll
INIT Init
NEXT Next
INVARIANT TypeOK
INVARIANT ModelOK
INVARIANT EmitBeh
CHECK_DEADLOCK FALSE
