------------------------------ MODULE Auth ------------------------------
(* C05: every exposed RPC is mediated by authentication and per-graph    *)
(* authorization.                                                        *)
(*                                                                       *)
(* One call is a small state machine                                     *)
(*   received -> Validate -> Enforce -> HandlerRan -> [elements] -> Reply *)
(* whose steps are guarded by "blockers": the set of reasons why the      *)
(* property forbids the step in the current state.  The abstract mediator *)
(* below takes a step only when its blocker set is empty; TLC checks that *)
(* this is enough for the invariants Mediation, NoEffect,                 *)
(* OpenWhenUnconfigured and BulkRule.  AuthTrace.tla re-uses the same     *)
(* blocker operators to judge the events recorded from the real           *)
(* interceptor chain.                                                     *)
(*                                                                       *)
(* The method table is written from the service definitions               *)
(* (gripql.proto): kind of RPC, operation class by the meaning of the     *)
(* method (classes as accounts/interface.go names them), and whether the  *)
(* request message names a graph.  It is deliberately NOT derived from    *)
(* accounts.MethodMap: a method missing there is what the property is     *)
(* about.                                                                 *)
EXTENDS Values

CONSTANT Thorough      \* BOOLEAN: size of the policy family

STAR == "*"
Ops       == {"read", "write", "query", "exec", "admin"}
Users     == {"alice", "bob", "root"}     \* root: granted everything by the deployed casbin model
Graphs    == {"g1", "g2"}                 \* graphs that policy rules name
ReqGraphs == {"g1", "g2", "g3"}           \* graphs that requests name (g3 is matched by wildcard rules only)
Creds     == {"none", "wrong", "right"}
Modes     == {"open", "basic", "casbin"}  \* no accounts / authentication only / authentication + policy
Codes     == {"ok", "unauthenticated", "permission_denied", "other", "noreply"}

MRow(k, s, n, kd, o, ga) == [key |-> k, svc |-> s, name |-> n, kind |-> kd, op |-> o, garg |-> ga]
MethodTable == {
  MRow("Query/Traversal",     "Query", "Traversal",    "sstream", "query", TRUE),
  MRow("Query/GetVertex",     "Query", "GetVertex",    "unary",   "read",  TRUE),
  MRow("Query/GetEdge",       "Query", "GetEdge",      "unary",   "read",  TRUE),
  MRow("Query/GetTimestamp",  "Query", "GetTimestamp", "unary",   "read",  TRUE),
  MRow("Query/GetSchema",     "Query", "GetSchema",    "unary",   "read",  TRUE),
  MRow("Query/GetMapping",    "Query", "GetMapping",   "unary",   "read",  TRUE),
  MRow("Query/ListGraphs",    "Query", "ListGraphs",   "unary",   "read",  FALSE),
  MRow("Query/ListIndices",   "Query", "ListIndices",  "unary",   "read",  TRUE),
  MRow("Query/ListLabels",    "Query", "ListLabels",   "unary",   "read",  TRUE),
  MRow("Query/ListTables",    "Query", "ListTables",   "sstream", "read",  FALSE),
  MRow("Job/Submit",          "Job",   "Submit",       "unary",   "exec",  TRUE),
  MRow("Job/ListJobs",        "Job",   "ListJobs",     "sstream", "read",  TRUE),
  MRow("Job/SearchJobs",      "Job",   "SearchJobs",   "sstream", "read",  TRUE),
  MRow("Job/DeleteJob",       "Job",   "DeleteJob",    "unary",   "write", TRUE),
  MRow("Job/GetJob",          "Job",   "GetJob",       "unary",   "read",  TRUE),
  MRow("Job/ViewJob",         "Job",   "ViewJob",      "sstream", "read",  TRUE),
  MRow("Job/ResumeJob",       "Job",   "ResumeJob",    "sstream", "exec",  TRUE),
  MRow("Edit/AddVertex",      "Edit",  "AddVertex",    "unary",   "write", TRUE),
  MRow("Edit/AddEdge",        "Edit",  "AddEdge",      "unary",   "write", TRUE),
  MRow("Edit/BulkAdd",        "Edit",  "BulkAdd",      "cstream", "write", FALSE),
  MRow("Edit/AddGraph",       "Edit",  "AddGraph",     "unary",   "write", TRUE),
  MRow("Edit/DeleteGraph",    "Edit",  "DeleteGraph",  "unary",   "write", TRUE),
  MRow("Edit/DeleteVertex",   "Edit",  "DeleteVertex", "unary",   "write", TRUE),
  MRow("Edit/DeleteEdge",     "Edit",  "DeleteEdge",   "unary",   "write", TRUE),
  MRow("Edit/AddIndex",       "Edit",  "AddIndex",     "unary",   "write", TRUE),
  MRow("Edit/DeleteIndex",    "Edit",  "DeleteIndex",  "unary",   "write", TRUE),
  MRow("Edit/AddSchema",      "Edit",  "AddSchema",    "unary",   "write", TRUE),
  MRow("Edit/SampleSchema",   "Edit",  "SampleSchema", "unary",   "write", TRUE),
  MRow("Edit/AddMapping",     "Edit",  "AddMapping",   "unary",   "write", TRUE),
  MRow("Configure/StartPlugin", "Configure", "StartPlugin", "unary", "admin", FALSE),
  MRow("Configure/ListPlugins", "Configure", "ListPlugins", "unary", "admin", FALSE),
  MRow("Configure/ListDrivers", "Configure", "ListDrivers", "unary", "admin", FALSE) }
Methods == { r.key : r \in MethodTable }
MethodOf(k) == CHOOSE r \in MethodTable : r.key = k

(* ---- policies: sets of rules, read as the deployed casbin model reads them *)
PRule(u, g, op) == [u |-> u, g |-> g, op |-> op]
Rules == { PRule(u, g, op) : u \in Users \ {"root"}, g \in Graphs \cup {STAR}, op \in Ops \cup {STAR} }
PolAllows(P, u, g, op) ==
  \/ u = "root"
  \/ \E r \in P : r.u = u /\ (r.g = g \/ r.g = STAR) /\ (r.op = op \/ r.op = STAR)

NamedPolicies == {
  { PRule("alice", STAR, STAR), PRule("bob", STAR, STAR) },                                    \* allow all
  {},                                                                                   \* deny all
  { PRule("alice", "g1", "read"), PRule("alice", "g2", "write"), PRule("bob", "g1", "query"),
    PRule("bob", "g2", "exec"), PRule("alice", STAR, "admin") },                                \* per operation
  { PRule("alice", "g1", "write"), PRule("alice", "g2", "query"), PRule("alice", "g1", "exec"),
    PRule("bob", "g1", "read"), PRule("bob", "g2", "write"), PRule("bob", STAR, "read") },          \* per operation, other split
  { PRule("alice", STAR, "read"), PRule("bob", STAR, "write") },                                \* wildcard graph
  { PRule("alice", STAR, "query"), PRule("bob", STAR, "exec"), PRule("bob", STAR, "admin") },       \* wildcard graph
  { PRule("alice", "g1", STAR), PRule("bob", "g2", STAR) } }                                    \* wildcard operation
\* thorough: every single-rule policy for alice (bob is then the user without rules)
SingleRulePolicies == { {r} : r \in { x \in Rules : x.u = "alice" } }
Policies == IF Thorough THEN NamedPolicies \cup SingleRulePolicies ELSE NamedPolicies

BulkSeqs == { <<"g1", "g2", "g3">>, <<"g2", "g1", "g2">>, <<"g3">>, <<>>,
              <<"g1", "g1", "g1", "g2">>, <<"g2", "g2", "g1", "g1", "g2">>, <<"g3", "g3">> }   \* runs of one graph: a filter that caches per graph must cache the verdict too

(* ---- state ----------------------------------------------------------- *)
VARIABLES
  cfg,     \* [mode, spied, pol]: server configuration; spied = Validate/Enforce consultations are observable
  call,    \* [m, mt, user, cred, g, elems]: mt is the row of MethodTable for m
  pc,      \* "recv" | "ran" | "done"
  vals,    \* results of Validate seen so far: set of [ok, u]
  enfs,    \* results of Enforce seen so far: set of [u, g, op, ok]
  ran,     \* the service handler was invoked
  fwd,     \* graphs of the bulk elements that reached the handler, in order
  reply    \* code of the reply, "" before
avars == <<cfg, call, pc, vals, enfs, ran, fwd, reply>>

Mt   == call.mt
MKind == Mt.kind
Op   == Mt.op
RG   == IF Mt.garg THEN call.g ELSE STAR       \* the graph the request names
Configured == cfg.mode # "open"
Allowed(u, g, op) == cfg.mode # "casbin" \/ PolAllows(cfg.pol, u, g, op)
AuthnOK == ~Configured \/ call.cred = "right"
Granted == AuthnOK /\ (MKind = "cstream" \/ Allowed(call.user, RG, Op))
Evidence == cfg.spied /\ cfg.mode = "casbin"   \* consultations are observable and a policy is configured

RECURSIVE AllowedSub(_)
AllowedSub(q) == IF q = <<>> THEN <<>>
                 ELSE IF AuthnOK /\ Allowed(call.user, Head(q), "write")
                      THEN <<Head(q)>> \o AllowedSub(Tail(q)) ELSE AllowedSub(Tail(q))

(* ---- blockers: why the property forbids a step ----------------------- *)
(* "Hard" causes are decided from the configuration alone (credentials,   *)
(* policy, what the client sent); the others refine them with what the    *)
(* spies saw and only name the root cause.                                *)
HardCauses == { "handler-ran-unauthenticated", "handler-ran-though-policy-denies",
                "denied-elem-forwarded", "allowed-elem-dropped", "refused-with-no-accounts",
                "denied-call-replied-ok", "call-never-answered" }

ValidateBlockers(ok, u) ==
  IF ~Configured THEN (IF ok THEN {} ELSE {"validate-fails-with-no-accounts"})
  ELSE IF ok # (call.cred = "right") \/ (ok /\ u # call.user) THEN {"validate-contradicts-credentials"} ELSE {}

EnforceBlockers(u, g, op, ok) ==
  IF ok # Allowed(u, g, op) THEN {"enforce-contradicts-policy"} ELSE {}

EnforceEvidence(g, op) ==       \* what the recorded consultations say about (caller, g, op)
  IF [u |-> call.user, g |-> g, op |-> op, ok |-> TRUE] \in enfs THEN {}
  ELSE IF \E e \in enfs : e.g = g /\ e.op = op /\ e.u = call.user THEN {"after-denied-enforce"}
  ELSE IF \E e \in enfs : e.g = g /\ e.op = op THEN {"enforce-wrong-user"}
  ELSE IF \E e \in enfs : e.g = g THEN {"enforce-wrong-op"}
  ELSE IF enfs # {} THEN {"enforce-wrong-graph"}
  ELSE {"without-enforce"}

RunBlockers ==
     (IF ~AuthnOK THEN {"handler-ran-unauthenticated"} ELSE {})
  \cup (IF AuthnOK /\ ~Granted THEN {"handler-ran-though-policy-denies"} ELSE {})
  \cup (IF Evidence /\ ~(\E v \in vals : v.ok) THEN {"handler-ran-without-validate"} ELSE {})
  \cup (IF Evidence /\ MKind # "cstream"
        THEN { "handler-ran-" \o x : x \in EnforceEvidence(RG, Op) } ELSE {})

ForwardBlockers(g) ==
     (IF ~AuthnOK \/ ~Allowed(call.user, g, "write") THEN {"denied-elem-forwarded"} ELSE {})
  \cup (IF Evidence THEN { "elem-forwarded-" \o x : x \in EnforceEvidence(g, "write") } ELSE {})

ReplyBlockers(code) ==
     (IF code = "noreply" THEN {"call-never-answered"} ELSE {})
  \cup (IF ~Configured /\ (~ran \/ code # "ok") /\ code # "noreply" THEN {"refused-with-no-accounts"} ELSE {})
  \cup (IF ~Granted /\ code = "ok" THEN {"denied-call-replied-ok"} ELSE {})
  \cup (IF ran /\ MKind = "cstream" /\ code = "ok" /\ fwd # AllowedSub(call.elems)
           /\ \A j \in DOMAIN fwd : AuthnOK /\ Allowed(call.user, fwd[j], "write")
        THEN {"allowed-elem-dropped"} ELSE {})
  \cup (IF Configured /\ Granted /\ ~ran /\ code # "noreply" THEN {"granted-but-refused"} ELSE {})   \* not forbidden ("only if")

(* ---- the abstract mediator ------------------------------------------- *)
Configs == { [mode |-> "open", spied |-> TRUE, pol |-> {}], [mode |-> "basic", spied |-> TRUE, pol |-> {}] }
           \cup { [mode |-> "casbin", spied |-> s, pol |-> P] : s \in (IF Thorough THEN BOOLEAN ELSE {TRUE}), P \in Policies }
Calls ==
  { [m |-> r.key, mt |-> r, user |-> u, cred |-> c, g |-> g, elems |-> <<>>] :
        r \in { x \in MethodTable : x.kind # "cstream" /\ x.garg }, u \in Users, c \in Creds, g \in ReqGraphs }
  \cup { [m |-> r.key, mt |-> r, user |-> u, cred |-> c, g |-> STAR, elems |-> <<>>] :
        r \in { x \in MethodTable : x.kind # "cstream" /\ ~x.garg }, u \in Users, c \in Creds }
  \cup { [m |-> r.key, mt |-> r, user |-> u, cred |-> c, g |-> STAR, elems |-> e] :
        r \in { x \in MethodTable : x.kind = "cstream" }, u \in Users, c \in Creds, e \in BulkSeqs }

Init == /\ cfg \in Configs /\ call \in Calls
        /\ pc = "recv" /\ vals = {} /\ enfs = {} /\ ran = FALSE /\ fwd = <<>> /\ reply = ""

AValidate == /\ pc = "recv" /\ vals = {}
             /\ \E ok \in BOOLEAN, u \in {call.user, ""} :
                  /\ ValidateBlockers(ok, u) = {}
                  /\ (ok /\ Configured) => u = call.user
                  /\ vals' = vals \cup {[ok |-> ok, u |-> u]}
             /\ UNCHANGED <<cfg, call, pc, enfs, ran, fwd, reply>>

\* consultations of the policy: for the call itself or for a bulk element
AEnforce == /\ pc # "done"
            /\ \E g \in {RG} \cup SeqToSet(call.elems), ok \in BOOLEAN :
                 LET op == IF MKind = "cstream" THEN "write" ELSE Op
                     e  == [u |-> call.user, g |-> g, op |-> op, ok |-> ok] IN
                 /\ EnforceBlockers(call.user, g, op, ok) = {}
                 /\ e \notin enfs
                 /\ enfs' = enfs \cup {e}
            /\ UNCHANGED <<cfg, call, pc, vals, ran, fwd, reply>>

ARun == /\ pc = "recv" /\ RunBlockers = {}
        /\ ran' = TRUE /\ pc' = "ran"
        /\ UNCHANGED <<cfg, call, vals, enfs, fwd, reply>>

\* the next allowed element reaches the handler (denied ones are skipped)
AForward == /\ pc = "ran" /\ MKind = "cstream"
            /\ Len(fwd) < Len(AllowedSub(call.elems))
            /\ LET g == AllowedSub(call.elems)[Len(fwd) + 1] IN
                 /\ ForwardBlockers(g) = {}
                 /\ fwd' = Append(fwd, g)
            /\ UNCHANGED <<cfg, call, pc, vals, enfs, ran, reply>>

AReply == /\ pc # "done"
          /\ \E code \in Codes :
               /\ ReplyBlockers(code) \cap HardCauses = {}
               /\ code = "ok" <=> ran
               /\ reply' = code
          /\ pc' = "done"
          /\ UNCHANGED <<cfg, call, vals, enfs, ran, fwd>>

Done == pc = "done" /\ UNCHANGED avars

Next == AValidate \/ AEnforce \/ ARun \/ AForward \/ AReply \/ Done

(* ---- the property ------------------------------------------------------ *)
Mediation ==
  ran => /\ Configured => call.cred = "right"
         /\ (Configured /\ MKind # "cstream") => Allowed(call.user, RG, Op)

\* the same, as witnessed at the consultation points (when they are observable)
Witnessed ==
  Evidence =>
    /\ ran => /\ \E v \in vals : v.ok /\ v.u = call.user
              /\ MKind # "cstream" => [u |-> call.user, g |-> RG, op |-> Op, ok |-> TRUE] \in enfs
    /\ \A j \in DOMAIN fwd : [u |-> call.user, g |-> fwd[j], op |-> "write", ok |-> TRUE] \in enfs

NoEffect == ~Granted => /\ ~ran /\ fwd = <<>>
                        /\ pc = "done" => reply # "ok"

OpenWhenUnconfigured ==
  (~Configured /\ pc = "done") => /\ ran /\ reply = "ok"
                                  /\ MKind = "cstream" => fwd = call.elems

BulkRule ==
  MKind = "cstream" =>
     /\ \A j \in DOMAIN fwd : AuthnOK /\ Allowed(call.user, fwd[j], "write")
     /\ (pc = "done" /\ ran /\ reply = "ok") => fwd = AllowedSub(call.elems)

\* the recorded consultations never contradict credentials / policy
ConsultationsSound ==
  /\ \A v \in vals : ValidateBlockers(v.ok, v.u) = {}
  /\ \A e \in enfs : EnforceBlockers(e.u, e.g, e.op, e.ok) = {}

TypeOK == /\ pc \in {"recv", "ran", "done"} /\ ran \in BOOLEAN
          /\ reply \in Codes \cup {""} /\ (pc = "done" <=> reply # "")

\* non-vacuity of the abstract mediator: a granted call can always be served
\* (checked as "no deadlock": every state short of done has a successor)

(* ---- what the check driver needs: the families, printed once ----------- *)
PolSeq(P) == P    \* sets of records print as JSON arrays
EmitFamily == Emit("family", [methods |-> MethodTable, policies |-> Policies, users |-> Users,
                              reqgraphs |-> ReqGraphs, bulk |-> BulkSeqs, creds |-> Creds,
                              hard |-> HardCauses])
ASSUME EmitFamily
=======================================================================
