CONSTANT Thorough = FALSE
INIT Init
NEXT Next
INVARIANT TypeOK
INVARIANT Mediation
INVARIANT NoEffect
INVARIANT OpenWhenUnconfigured
INVARIANT BulkRule
INVARIANT Witnessed
INVARIANT ConsultationsSound
CHECK_DEADLOCK TRUE
