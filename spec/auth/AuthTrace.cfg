CONSTANT Thorough = FALSE
CONSTANT Strict = FALSE
INIT TInit
NEXT TNext
INVARIANT Verdict
INVARIANT Consumed
INVARIANT StrictOK
CHECK_DEADLOCK FALSE
