CONSTANT Thorough = FALSE
CONSTANT Strict = TRUE
INIT TInit
NEXT TNext
INVARIANT Verdict
INVARIANT Consumed
INVARIANT StrictOK
CHECK_DEADLOCK FALSE
