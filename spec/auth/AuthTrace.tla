---------------------------- MODULE AuthTrace ----------------------------
(* Trace validation for C05.  trace.ndjson holds the events recorded from  *)
(* the real interceptor chain, many calls concatenated:                    *)
(*   Config  [mode, spied, pol]            server configuration that follows *)
(*   Begin   [c, m, user, cred, g, elems]  a new call (the TraceReset step) *)
(*   Validate [ok, u] / Enforce [u, g, op, ok]      consultations (spies)   *)
(*   HandlerRan / ElemForwarded [g] / Reply [code]                          *)
(* Every event is applied to the variables of Auth.tla; the blocker         *)
(* operators of Auth.tla say whether the abstract mediator could have taken *)
(* the step.  The causes are accumulated per call and printed as a verdict  *)
(* when the call is over, so that one run reports every rejected call.      *)
(* With Strict = TRUE the same judgement is an ordinary TLC invariant       *)
(* (used on the trace from which the reported calls have been removed).     *)
EXTENDS Auth

CONSTANT Strict

Trace == ndJsonDeserialize("trace.ndjson")

VARIABLES i,       \* index of the next event
          causes   \* blockers met by the events of the current call
tvars == <<cfg, call, pc, vals, enfs, ran, fwd, reply, i, causes>>

NoCall == [c |-> 0, m |-> "Query/GetVertex", mt |-> MethodOf("Query/GetVertex"), user |-> "", cred |-> "none", g |-> STAR, elems |-> <<>>]

TInit == /\ i = 1 /\ causes = {}
         /\ cfg = [mode |-> "open", spied |-> FALSE, pol |-> {}]
         /\ call = NoCall /\ pc = "done" /\ vals = {} /\ enfs = {} /\ ran = FALSE /\ fwd = <<>> /\ reply = "none"

ev == Trace[i]

TConfig == /\ ev.e = "Config" /\ pc = "done"
           /\ ev.mode \in Modes
           /\ cfg' = [mode |-> ev.mode, spied |-> ev.spied, pol |-> { ev.pol[j] : j \in DOMAIN ev.pol }]
           \* the finished call belongs to the previous configuration: forget it
           /\ call' = NoCall /\ vals' = {} /\ enfs' = {} /\ ran' = FALSE /\ fwd' = <<>> /\ reply' = "none" /\ causes' = {}
           /\ UNCHANGED pc

\* TraceReset: the previous call is over, a new one is received
TBegin == /\ ev.e = "Begin" /\ pc = "done"
          /\ ev.m \in Methods /\ ev.cred \in Creds
          /\ call' = [c |-> ev.c, m |-> ev.m, mt |-> MethodOf(ev.m), user |-> ev.user, cred |-> ev.cred, g |-> ev.g, elems |-> ev.elems]
          /\ pc' = "recv" /\ vals' = {} /\ enfs' = {} /\ ran' = FALSE /\ fwd' = <<>> /\ reply' = "" /\ causes' = {}
          /\ UNCHANGED cfg

TValidate == /\ ev.e = "Validate" /\ pc # "done"
             /\ causes' = causes \cup ValidateBlockers(ev.ok, ev.u)
             /\ vals' = vals \cup {[ok |-> ev.ok, u |-> ev.u]}
             /\ UNCHANGED <<cfg, call, pc, enfs, ran, fwd, reply>>

TEnforce == /\ ev.e = "Enforce" /\ pc # "done"
            /\ causes' = causes \cup EnforceBlockers(ev.u, ev.g, ev.op, ev.ok)
            /\ enfs' = enfs \cup {[u |-> ev.u, g |-> ev.g, op |-> ev.op, ok |-> ev.ok]}
            /\ UNCHANGED <<cfg, call, pc, vals, ran, fwd, reply>>

THandler == /\ ev.e = "HandlerRan" /\ pc # "done"
            /\ causes' = causes \cup RunBlockers
            /\ ran' = TRUE /\ pc' = "ran"
            /\ UNCHANGED <<cfg, call, vals, enfs, fwd, reply>>

TElem == /\ ev.e = "ElemForwarded" /\ pc # "done"
         /\ causes' = causes \cup ForwardBlockers(ev.g)
                             \cup (IF ran THEN {} ELSE {"elem-forwarded-before-handler"})
         /\ fwd' = Append(fwd, ev.g)
         /\ UNCHANGED <<cfg, call, pc, vals, enfs, ran, reply>>

TReply == /\ ev.e = "Reply" /\ pc # "done"
          /\ ev.code \in Codes
          /\ causes' = causes \cup ReplyBlockers(ev.code)
          /\ reply' = ev.code /\ pc' = "done"
          /\ UNCHANGED <<cfg, call, vals, enfs, ran, fwd>>

TNext == /\ i <= Len(Trace)
         /\ i' = i + 1
         /\ (TConfig \/ TBegin \/ TValidate \/ TEnforce \/ THandler \/ TElem \/ TReply)

Rejected == causes \cap HardCauses # {}

\* the invariants of Auth.tla that fail in the final state of the call
FailedInvariants ==
     (IF Mediation THEN {} ELSE {"Mediation"}) \cup (IF NoEffect THEN {} ELSE {"NoEffect"})
  \cup (IF OpenWhenUnconfigured THEN {} ELSE {"OpenWhenUnconfigured"}) \cup (IF BulkRule THEN {} ELSE {"BulkRule"})
  \cup (IF ConsultationsSound THEN {} ELSE {"ConsultationsSound"}) \cup (IF Witnessed THEN {} ELSE {"Witnessed"})

Verdict == (pc = "done" /\ call.c # 0 /\ Trace[i - 1].e = "Reply") =>
              Emit("v", [c |-> call.c, causes |-> causes, rejected |-> Rejected, inv |-> FailedInvariants])
Consumed == (i = Len(Trace) + 1) => Emit("consumed", [n |-> Len(Trace), done |-> pc = "done"])

\* strict mode: ordinary invariants over the whole trace
StrictOK == Strict => /\ ~Rejected
                      /\ (pc = "done" /\ call.c # 0) => (Mediation /\ NoEffect /\ OpenWhenUnconfigured /\ BulkRule)
                      /\ (pc # "done") => (Mediation /\ BulkRule)
=======================================================================
