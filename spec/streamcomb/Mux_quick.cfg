\* quick-tier configuration (the thorough tier generates a grid, see lib/checks/c13.py)
CONSTANTS
  P = 3
  CapLane = 0
  CapOrder = 1
  CapOut = 1
  N = 5
SPECIFICATION Spec
INVARIANT Order
INVARIANT Once
INVARIANT ClosesOnlyWhenExhausted
PROPERTY Refines
INVARIANT NeverZero
PROPERTY EventuallyClosed
