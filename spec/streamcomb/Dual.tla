------------------------------- MODULE Dual -------------------------------
(* Implementation-shaped model of gdbi.DualProcessor (gdbi/processor.go): *)
(*   stage 1   for r := range reqChan {                                   *)
(*               if r.IsSignal() { data <- {r} }                           *)
(*               else { for out := range loader(r) { data <- {r, out} } } } *)
(*             close(data)                                                *)
(*   stage 2   for d := range data { out <- (signal ? d.Req : deserializer(d.Req, d.Data)) } *)
(*             close(out)                                                 *)
(* A request k is either a signal (one output, the request itself) or a   *)
(* lookup whose loader yields 0..MaxRes results; the caller decides which *)
(* when it sends the request, so the owed output is known: request k with *)
(* m results owes <<k,1>> .. <<k,m>>; a signal owes <<k,0>>.              *)
EXTENDS Naturals, Sequences

CONSTANTS CapReq,   \* capacity of reqChan (>= 1)
          CapData,  \* capacity of data (code: 100)
          CapOut,   \* capacity of out (code: 100)
          MaxRes,   \* maximal number of loader results per request
          N         \* maximal number of requests

VARIABLES
  sent,                 \* number of requests sent
  owed,                 \* the items those requests owe, in order
  reqCh, reqClosed,     \* channel of requests <<k, m, isSignal>>, m = number of loader results
  data, dataClosed,
  outCh, outChClosed,
  lpc, lReq, lIdx,      \* stage 1: "recv" | "emit" | "done"
  dpc, dItem,           \* stage 2: "recv" | "send" | "done"
  received, sawClose

vars == <<sent, owed, reqCh, reqClosed, data, dataClosed, outCh, outChClosed,
          lpc, lReq, lIdx, dpc, dItem, received, sawClose>>

Init == /\ sent = 0 /\ owed = <<>> /\ reqCh = <<>> /\ reqClosed = FALSE
        /\ data = <<>> /\ dataClosed = FALSE /\ outCh = <<>> /\ outChClosed = FALSE
        /\ lpc = "recv" /\ lReq = <<0, 0, FALSE>> /\ lIdx = 0
        /\ dpc = "recv" /\ dItem = <<0, 0>>
        /\ received = <<>> /\ sawClose = FALSE

Results(k, m) == [x \in 1..m |-> <<k, x>>]

ProdLookup(m) == /\ sent < N /\ ~reqClosed /\ Len(reqCh) < CapReq
                 /\ reqCh' = Append(reqCh, <<sent + 1, m, FALSE>>)
                 /\ owed' = owed \o Results(sent + 1, m)
                 /\ sent' = sent + 1
                 /\ UNCHANGED <<reqClosed, data, dataClosed, outCh, outChClosed, lpc, lReq, lIdx, dpc, dItem, received, sawClose>>
ProdSignal == /\ sent < N /\ ~reqClosed /\ Len(reqCh) < CapReq
              /\ reqCh' = Append(reqCh, <<sent + 1, 0, TRUE>>)
              /\ owed' = Append(owed, <<sent + 1, 0>>)
              /\ sent' = sent + 1
              /\ UNCHANGED <<reqClosed, data, dataClosed, outCh, outChClosed, lpc, lReq, lIdx, dpc, dItem, received, sawClose>>
ProdClose == /\ ~reqClosed /\ reqClosed' = TRUE
             /\ UNCHANGED <<sent, owed, reqCh, data, dataClosed, outCh, outChClosed, lpc, lReq, lIdx, dpc, dItem, received, sawClose>>
ConsRecv == /\ outCh # <<>>
            /\ received' = Append(received, Head(outCh)) /\ outCh' = Tail(outCh)
            /\ UNCHANGED <<sent, owed, reqCh, reqClosed, data, dataClosed, outChClosed, lpc, lReq, lIdx, dpc, dItem, sawClose>>
ConsClosed == /\ outCh = <<>> /\ outChClosed /\ ~sawClose /\ sawClose' = TRUE
              /\ UNCHANGED <<sent, owed, reqCh, reqClosed, data, dataClosed, outCh, outChClosed, lpc, lReq, lIdx, dpc, dItem, received>>

\* stage 1
IsSig(r) == r[3]
LRecv == /\ lpc = "recv" /\ reqCh # <<>>
         /\ lReq' = Head(reqCh) /\ reqCh' = Tail(reqCh)
         /\ lIdx' = 1
         /\ lpc' = IF IsSig(Head(reqCh)) THEN "emit"
                   ELSE IF Head(reqCh)[2] = 0 THEN "recv" ELSE "emit"     \* loader channel closed at once
         /\ UNCHANGED <<sent, owed, reqClosed, data, dataClosed, outCh, outChClosed, dpc, dItem, received, sawClose>>
LRecvClosed == /\ lpc = "recv" /\ reqCh = <<>> /\ reqClosed
               /\ dataClosed' = TRUE /\ lpc' = "done"
               /\ UNCHANGED <<sent, owed, reqCh, reqClosed, data, outCh, outChClosed, lReq, lIdx, dpc, dItem, received, sawClose>>
LEmit == /\ lpc = "emit" /\ Len(data) < CapData
         /\ IF IsSig(lReq)
            THEN data' = Append(data, <<lReq[1], 0>>) /\ lpc' = "recv" /\ lIdx' = lIdx
            ELSE /\ data' = Append(data, <<lReq[1], lIdx>>)
                 /\ IF lIdx = lReq[2] THEN lpc' = "recv" /\ lIdx' = lIdx
                                      ELSE lpc' = "emit" /\ lIdx' = lIdx + 1
         /\ UNCHANGED <<sent, owed, reqCh, reqClosed, dataClosed, outCh, outChClosed, lReq, dpc, dItem, received, sawClose>>
\* stage 2
DRecv == /\ dpc = "recv" /\ data # <<>>
         /\ dItem' = Head(data) /\ data' = Tail(data) /\ dpc' = "send"
         /\ UNCHANGED <<sent, owed, reqCh, reqClosed, dataClosed, outCh, outChClosed, lpc, lReq, lIdx, received, sawClose>>
DRecvClosed == /\ dpc = "recv" /\ data = <<>> /\ dataClosed
               /\ outChClosed' = TRUE /\ dpc' = "done"
               /\ UNCHANGED <<sent, owed, reqCh, reqClosed, data, dataClosed, outCh, lpc, lReq, lIdx, dItem, received, sawClose>>
DSend == /\ dpc = "send" /\ Len(outCh) < CapOut
         /\ outCh' = Append(outCh, dItem) /\ dpc' = "recv"
         /\ UNCHANGED <<sent, owed, reqCh, reqClosed, data, dataClosed, outChClosed, lpc, lReq, lIdx, dItem, received, sawClose>>

Terminated == sawClose /\ lpc = "done" /\ dpc = "done"
Done == Terminated /\ UNCHANGED vars

Prod == (\E m \in 0..MaxRes : ProdLookup(m)) \/ ProdSignal \/ ProdClose
Load == LRecv \/ LRecvClosed \/ LEmit
Deser == DRecv \/ DRecvClosed \/ DSend
Next == Prod \/ ConsRecv \/ ConsClosed \/ Load \/ Deser \/ Done
Fair == WF_vars(ProdClose) /\ WF_vars(ConsRecv \/ ConsClosed) /\ WF_vars(Load) /\ WF_vars(Deser)
Spec == Init /\ [][Next]_vars /\ Fair

Abs == INSTANCE StreamAbs WITH given <- owed, out <- received,
                               inClosed <- reqClosed, outClosed <- sawClose
Order == Abs!Order
Once == Abs!Once
ClosesOnlyWhenExhausted == Abs!ClosesOnlyWhenExhausted
Refines == Abs!Spec(1, {Results(k, m) : k \in 1..N, m \in 0..MaxRes} \cup {<<(<<k, 0>>)>> : k \in 1..N})
EventuallyClosed == <>sawClose
=========================================================================
