--------------------------- MODULE StreamTrace ---------------------------
(* C13 binding: histories recorded around the REAL combinators, checked   *)
(* against the property-level specification StreamAbs.                    *)
(*                                                                        *)
(* A trace has two operation lists, one per harness goroutine:            *)
(*   p  producer:  [k |-> "s", v |-> items, b, e]  a send that returned   *)
(*                 (v = the items this input owes the consumer)           *)
(*                 [k |-> "c", ...]                close(input) / Close() *)
(*   c  consumer:  [k |-> "r", v |-> chunk, b, e]  a receive that yielded *)
(*                 [k |-> "x", ...]                a receive that reported*)
(*                                                 the output closed      *)
(* The position in a list is the per-goroutine sequence number.  b and e  *)
(* are tickets drawn from one shared atomic counter immediately before    *)
(* the operation was invoked and immediately after it returned (a logical *)
(* clock, not wall-clock time): operation X wholly precedes operation Y   *)
(* iff X.e < Y.b; otherwise the two are concurrent and both orders are    *)
(* possible.  TLC explores the linear extensions of this partial order    *)
(* and applies StreamAbs's Put / CloseIn / Get / CloseOut.  A trace is    *)
(* accepted iff some extension is a behaviour of StreamAbs that ends with *)
(* both ends closed.  In particular an output item is refused while the   *)
(* send that owes it cannot have happened yet.                            *)
(*                                                                        *)
(* mode = "linear" (long traces): only the most permissive extension is   *)
(* walked - every producer operation as early as the order allows.  It is *)
(* complete because Put and CloseIn never disable a later Get or CloseOut *)
(* (given only grows before CloseIn, and CloseOut needs CloseIn anyway).  *)
(*                                                                        *)
(* All traces of one run live in one file; the initial state picks one    *)
(* (the "reset"), so one TLC process validates them all.                  *)
EXTENDS Integers, Sequences, TLC, Json

Traces == ndJsonDeserialize("traces.ndjson")
Emit(tag, obj) == PrintT(<<"J", tag, ToJson(obj)>>)

VARIABLES t,         \* index of the trace being validated
          i, j,      \* producer / consumer operations consumed
          within,    \* in-flight items never exceeded the code's total buffer capacity (MODEL-DRIFT only)
          given, out, inClosed, outClosed   \* StreamAbs
vars == <<t, i, j, within, given, out, inClosed, outClosed>>

Abs == INSTANCE StreamAbs

Tr == Traces[t]
P  == Tr.p
C  == Tr.c
NP == Len(P)
NC == Len(C)
Limit == Tr.maxchunk

Init == /\ t \in 1..Len(Traces)
        /\ i = 0 /\ j = 0 /\ within = TRUE
        /\ Abs!Init

\* the interval order: the next operation of one side may be taken unless the
\* next operation of the other side wholly precedes it
ProdMay == i < NP /\ (j < NC => ~(C[j + 1].e < P[i + 1].b))
ConsMay == j < NC /\ (i < NP => ~(P[i + 1].e < C[j + 1].b))

ProdOK == ProdMay /\ (IF P[i + 1].k = "s" THEN Abs!PutOK ELSE Abs!CloseInOK)
ConsOK == /\ ConsMay
          /\ (Tr.mode = "linear" => ~ProdMay)
          /\ (IF C[j + 1].k = "r" THEN Abs!GetOK(C[j + 1].v, Limit) ELSE Abs!CloseOutOK)

Bounded(g, o) == Tr.cap < 0 \/ Len(g) - Len(o) <= Tr.cap

ProdStep == /\ ProdOK
            /\ IF P[i + 1].k = "s" THEN Abs!Put(P[i + 1].v) ELSE Abs!CloseIn
            /\ i' = i + 1
            /\ within' = (within /\ Bounded(given', out'))
            /\ UNCHANGED <<t, j>>
ConsStep == /\ ConsOK
            /\ IF C[j + 1].k = "r" THEN Abs!Get(C[j + 1].v, Limit) ELSE Abs!CloseOut
            /\ j' = j + 1
            /\ UNCHANGED <<t, i, within>>
Next == ProdStep \/ ConsStep
Spec == Init /\ [][Next]_vars

Finished == i = NP /\ j = NC /\ inClosed /\ outClosed
Stuck == ~Finished /\ ~ProdOK /\ ~ConsOK

\* ------------------------------------------------------------ diagnosis
\* (names the shape of a refusal; the verdict is the refusal itself)
AllGiven == LET F[k \in 0..NP] == IF k = 0 THEN <<>>
                                  ELSE IF P[k].k = "s" THEN F[k - 1] \o P[k].v ELSE F[k - 1]
            IN F[NP]
AllOut   == LET F[k \in 0..NC] == IF k = 0 THEN <<>>
                                  ELSE IF C[k].k = "r" THEN F[k - 1] \o C[k].v ELSE F[k - 1]
            IN F[NC]
InSeq(s, v) == \E k \in 1..Len(s) : s[k] = v
HasOp(ops, kind) == \E k \in 1..Len(ops) : ops[k].k = kind

\* first position of the chunk that disagrees with what is owed next
BadPos(chunk) == CHOOSE q \in 1..Len(chunk) :
                   /\ (Len(out) + q > Len(AllGiven) \/ chunk[q] # AllGiven[Len(out) + q])
                   /\ \A r \in 1..(q - 1) : Len(out) + r <= Len(AllGiven) /\ chunk[r] = AllGiven[Len(out) + r]
ChunkAgrees(chunk) == \A q \in 1..Len(chunk) : Len(out) + q <= Len(AllGiven) /\ chunk[q] = AllGiven[Len(out) + q]

WhyGet(chunk) ==
  IF chunk = <<>> THEN "empty-batch"
  ELSE IF Len(chunk) > Limit THEN "oversize-batch"
  ELSE IF outClosed THEN "output-after-close"
  ELSE IF ChunkAgrees(chunk) THEN "item-before-input"
  ELSE LET q == BadPos(chunk)
           v == chunk[q]
           done == out \o SubSeq(chunk, 1, q - 1)
       IN IF InSeq(done, v) THEN "duplicates-item"
          ELSE IF ~InSeq(AllGiven, v) THEN "spurious-item"
          ELSE IF Len(done) < Len(AllGiven) /\ InSeq(SubSeq(AllOut, Len(done) + 1, Len(AllOut)), AllGiven[Len(done) + 1])
               THEN "reorders-items"
          ELSE "loses-item"

Why == IF j < NC /\ ConsMay
       THEN IF C[j + 1].k = "r" THEN WhyGet(C[j + 1].v)
            ELSE IF ~inClosed THEN "closes-early"
            ELSE IF out # given THEN "loses-item"
            ELSE "closes-twice"
       ELSE IF i < NP THEN "send-after-close"
       ELSE IF ~HasOp(P, "c") THEN "stalls"
       ELSE IF ~HasOp(C, "x") THEN "never-closes"
       ELSE "unexplained"

EmitOK == Finished => Emit("ok", [id |-> Tr.id, within |-> within])
EmitStuck == Stuck => Emit("stuck", [id |-> Tr.id, i |-> i, j |-> j, why |-> Why])

\* the statements of the property, on every state of every accepted prefix
\* (Get's guard already enforces them; for the long traces the O(n) re-check per state is skipped)
Order == Tr.mode = "linear" \/ Abs!Order
ClosesOnlyWhenExhausted == Abs!ClosesOnlyWhenExhausted
=========================================================================
