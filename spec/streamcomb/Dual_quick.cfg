\* quick-tier configuration (the thorough tier generates a grid, see lib/checks/c13.py)
CONSTANTS
  CapReq = 1
  CapData = 1
  CapOut = 1
  MaxRes = 2
  N = 3
SPECIFICATION Spec
INVARIANT Order
INVARIANT Once
INVARIANT ClosesOnlyWhenExhausted
PROPERTY Refines
PROPERTY EventuallyClosed
