---------------------------- MODULE RoundRobin ----------------------------
(* Implementation-shaped model of jobstorage.MarshalStream and            *)
(* jobstorage.UnmarshalStream (jobstorage/serializer.go; the two are the  *)
(* same program up to the work a worker does).  One action per channel    *)
(* operation:                                                             *)
(*   distributor  for i := range inPipe { toWorkers[n] <- i; n = n+1 mod W }*)
(*                then close(toWorkers[0..W-1]) one after the other        *)
(*   worker w     for t := range in { out <- f(t) }; close(out)            *)
(*   merger       for found := true; found; { found = false               *)
(*                   for i in 0..W-1 { if c, ok := <-from[i]; ok { out <- c; found = true } } }*)
(*                close(out)                                               *)
(* Worker latency is arbitrary because the actions interleave freely.     *)
(* The caller is a producer that sends 1..N and closes, and a consumer.   *)
EXTENDS Naturals, Sequences

CONSTANTS W,        \* workers (the code is called with 4)
          CapIn,    \* capacity of the caller's input channel (>= 1)
          CapLane,  \* capacity of every toWorkers / fromWorkers channel (code: 10)
          CapOut,   \* capacity of the merged output (code: 10*W)
          N         \* maximal input length (every length 0..N is explored)

Lanes == 1..W

VARIABLES
  sent,                    \* caller: number of items sent so far (items are 1..N)
  inCh, inChClosed,        \* input channel
  toW, toWClosed,          \* lane -> channel to worker
  fromW, fromWClosed,      \* lane -> channel from worker
  outCh, outChClosed,      \* merged output channel
  dpc, dn, dItem, dClose,  \* distributor
  wpc, wItem,              \* workers
  mpc, mi, found, mItem,   \* merger
  received, sawClose       \* consumer

vars == <<sent, inCh, inChClosed, toW, toWClosed, fromW, fromWClosed, outCh, outChClosed,
          dpc, dn, dItem, dClose, wpc, wItem, mpc, mi, found, mItem, received, sawClose>>

Init ==
  /\ sent = 0 /\ inCh = <<>> /\ inChClosed = FALSE
  /\ toW = [l \in Lanes |-> <<>>] /\ toWClosed = [l \in Lanes |-> FALSE]
  /\ fromW = [l \in Lanes |-> <<>>] /\ fromWClosed = [l \in Lanes |-> FALSE]
  /\ outCh = <<>> /\ outChClosed = FALSE
  /\ dpc = "recv" /\ dn = 1 /\ dItem = 0 /\ dClose = 1
  /\ wpc = [l \in Lanes |-> "recv"] /\ wItem = [l \in Lanes |-> 0]
  /\ mpc = "recv" /\ mi = 1 /\ found = FALSE /\ mItem = 0
  /\ received = <<>> /\ sawClose = FALSE

\* ------------------------------------------------------------- caller
ProdSend == /\ sent < N /\ ~inChClosed /\ Len(inCh) < CapIn
            /\ inCh' = Append(inCh, sent + 1) /\ sent' = sent + 1
            /\ UNCHANGED <<inChClosed, toW, toWClosed, fromW, fromWClosed, outCh, outChClosed,
                           dpc, dn, dItem, dClose, wpc, wItem, mpc, mi, found, mItem, received, sawClose>>
ProdClose == /\ ~inChClosed                \* the caller may stop after any number of items <= N
             /\ inChClosed' = TRUE
             /\ UNCHANGED <<sent, inCh, toW, toWClosed, fromW, fromWClosed, outCh, outChClosed,
                            dpc, dn, dItem, dClose, wpc, wItem, mpc, mi, found, mItem, received, sawClose>>
ConsRecv == /\ outCh # <<>>
            /\ received' = Append(received, Head(outCh)) /\ outCh' = Tail(outCh)
            /\ UNCHANGED <<sent, inCh, inChClosed, toW, toWClosed, fromW, fromWClosed, outChClosed,
                           dpc, dn, dItem, dClose, wpc, wItem, mpc, mi, found, mItem, sawClose>>
ConsClosed == /\ outCh = <<>> /\ outChClosed /\ ~sawClose
              /\ sawClose' = TRUE
              /\ UNCHANGED <<sent, inCh, inChClosed, toW, toWClosed, fromW, fromWClosed, outCh, outChClosed,
                             dpc, dn, dItem, dClose, wpc, wItem, mpc, mi, found, mItem, received>>

\* -------------------------------------------------------- distributor
DRecv == /\ dpc = "recv" /\ inCh # <<>>
         /\ dItem' = Head(inCh) /\ inCh' = Tail(inCh) /\ dpc' = "send"
         /\ UNCHANGED <<sent, inChClosed, toW, toWClosed, fromW, fromWClosed, outCh, outChClosed,
                        dn, dClose, wpc, wItem, mpc, mi, found, mItem, received, sawClose>>
DRecvClosed == /\ dpc = "recv" /\ inCh = <<>> /\ inChClosed
               /\ dpc' = "close"
               /\ UNCHANGED <<sent, inCh, inChClosed, toW, toWClosed, fromW, fromWClosed, outCh, outChClosed,
                              dn, dItem, dClose, wpc, wItem, mpc, mi, found, mItem, received, sawClose>>
DSend == /\ dpc = "send" /\ Len(toW[dn]) < CapLane
         /\ toW' = [toW EXCEPT ![dn] = Append(@, dItem)]
         /\ dn' = (dn % W) + 1 /\ dpc' = "recv"
         /\ UNCHANGED <<sent, inCh, inChClosed, toWClosed, fromW, fromWClosed, outCh, outChClosed,
                        dItem, dClose, wpc, wItem, mpc, mi, found, mItem, received, sawClose>>
DClose == /\ dpc = "close"
          /\ toWClosed' = [toWClosed EXCEPT ![dClose] = TRUE]
          /\ IF dClose = W THEN dpc' = "done" /\ dClose' = dClose
                           ELSE dpc' = "close" /\ dClose' = dClose + 1
          /\ UNCHANGED <<sent, inCh, inChClosed, toW, fromW, fromWClosed, outCh, outChClosed,
                         dn, dItem, wpc, wItem, mpc, mi, found, mItem, received, sawClose>>

\* ------------------------------------------------------------ workers
WRecv(l) == /\ wpc[l] = "recv" /\ toW[l] # <<>>
            /\ wItem' = [wItem EXCEPT ![l] = Head(toW[l])]
            /\ toW' = [toW EXCEPT ![l] = Tail(@)]
            /\ wpc' = [wpc EXCEPT ![l] = "send"]
            /\ UNCHANGED <<sent, inCh, inChClosed, toWClosed, fromW, fromWClosed, outCh, outChClosed,
                           dpc, dn, dItem, dClose, mpc, mi, found, mItem, received, sawClose>>
WRecvClosed(l) == /\ wpc[l] = "recv" /\ toW[l] = <<>> /\ toWClosed[l]
                  /\ fromWClosed' = [fromWClosed EXCEPT ![l] = TRUE]      \* defer close(out)
                  /\ wpc' = [wpc EXCEPT ![l] = "done"]
                  /\ UNCHANGED <<sent, inCh, inChClosed, toW, toWClosed, fromW, outCh, outChClosed,
                                 dpc, dn, dItem, dClose, wItem, mpc, mi, found, mItem, received, sawClose>>
WSend(l) == /\ wpc[l] = "send" /\ Len(fromW[l]) < CapLane
            /\ fromW' = [fromW EXCEPT ![l] = Append(@, wItem[l])]
            /\ wpc' = [wpc EXCEPT ![l] = "recv"]
            /\ UNCHANGED <<sent, inCh, inChClosed, toW, toWClosed, fromWClosed, outCh, outChClosed,
                           dpc, dn, dItem, dClose, wItem, mpc, mi, found, mItem, received, sawClose>>

\* ------------------------------------------------------------- merger
\* what happens after lane mi has been dealt with in this rotation
MAdvance(f) ==
  IF mi < W THEN mi' = mi + 1 /\ found' = f /\ mpc' = "recv" /\ UNCHANGED outChClosed
  ELSE IF f THEN mi' = 1 /\ found' = FALSE /\ mpc' = "recv" /\ UNCHANGED outChClosed
  ELSE mi' = mi /\ found' = f /\ mpc' = "done" /\ outChClosed' = TRUE     \* defer close(out)
MRecv == /\ mpc = "recv" /\ fromW[mi] # <<>>
         /\ mItem' = Head(fromW[mi]) /\ fromW' = [fromW EXCEPT ![mi] = Tail(@)]
         /\ mpc' = "send"
         /\ UNCHANGED <<sent, inCh, inChClosed, toW, toWClosed, fromWClosed, outCh, outChClosed,
                        dpc, dn, dItem, dClose, wpc, wItem, mi, found, received, sawClose>>
MRecvClosed == /\ mpc = "recv" /\ fromW[mi] = <<>> /\ fromWClosed[mi]
               /\ MAdvance(found)
               /\ UNCHANGED <<sent, inCh, inChClosed, toW, toWClosed, fromW, fromWClosed, outCh,
                              dpc, dn, dItem, dClose, wpc, wItem, mItem, received, sawClose>>
MSend == /\ mpc = "send" /\ Len(outCh) < CapOut
         /\ outCh' = Append(outCh, mItem)
         /\ MAdvance(TRUE)
         /\ UNCHANGED <<sent, inCh, inChClosed, toW, toWClosed, fromW, fromWClosed,
                        dpc, dn, dItem, dClose, wpc, wItem, mItem, received, sawClose>>

Terminated == sawClose /\ dpc = "done" /\ mpc = "done" /\ \A l \in Lanes : wpc[l] = "done"
Done == Terminated /\ UNCHANGED vars

Caller == ProdSend \/ ProdClose \/ ConsRecv \/ ConsClosed
Dist == DRecv \/ DRecvClosed \/ DSend \/ DClose
Work(l) == WRecv(l) \/ WRecvClosed(l) \/ WSend(l)
Merge == MRecv \/ MRecvClosed \/ MSend
Next == Caller \/ Dist \/ (\E l \in Lanes : Work(l)) \/ Merge \/ Done

Fair == /\ WF_vars(ProdSend \/ ProdClose) /\ WF_vars(ConsRecv \/ ConsClosed)
        /\ WF_vars(Dist) /\ WF_vars(Merge) /\ \A l \in Lanes : WF_vars(Work(l))
Spec == Init /\ [][Next]_vars /\ Fair

\* ------------------------------------------- the property (StreamAbs)
\* items the combinator has accepted = items whose send on the input channel completed
Seq1(n) == [k \in 1..n |-> k]
Abs == INSTANCE StreamAbs WITH given <- Seq1(sent), out <- received,
                               inClosed <- inChClosed, outClosed <- sawClose
Order == Abs!Order
Once == Abs!Once
ClosesOnlyWhenExhausted == Abs!ClosesOnlyWhenExhausted
Refines == Abs!Spec(1, {<<k>> : k \in 1..N})
Closes == Abs!Closes
EventuallyClosed == <>sawClose
\* in-flight bound the trace specification uses for MODEL-DRIFT notes
InFlightBound == sent - Len(received) <= CapIn + 1 + W * (2 * CapLane + 1) + 1 + CapOut
=========================================================================
