----------------------------- MODULE Batcher -----------------------------
(* Implementation-shaped model of gdbi.LookupBatcher (gdbi/processor.go). *)
(*   o := []; last := now                                                 *)
(*   for open := true; open; {                                            *)
(*     select { case e, ok := <-req: last = now; if ok { o = append(o,e) } else { open = false } *)
(*              default: sleep(timeout/4) }                               *)
(*     if len(o) > 0 && (len(o) >= batchSize || now - last > timeout) {   *)
(*        out <- o; o = []; last = now } }                                *)
(*   if len(o) > 0 { out <- o }                                           *)
(*   close(out)                                                           *)
(* Time: `expired` says "now - last > timeout"; it is reset wherever the  *)
(* code assigns last = now and may become true at any moment (Tick).      *)
EXTENDS Naturals, Sequences

CONSTANTS Size,     \* batchSize (>= 1)
          CapReq,   \* capacity of the request channel (>= 1)
          CapOut,   \* capacity of the batch channel (code: 100)
          N         \* maximal input length

VARIABLES
  sent, req, reqClosed,      \* caller / input channel
  outCh, outChClosed,        \* channel of batches
  bpc,                       \* "select" | "check" | "flush" | "final" | "flushLast" | "close" | "done"
  o, open, expired,
  received,                  \* consumer: sequence of batches
  sawClose

vars == <<sent, req, reqClosed, outCh, outChClosed, bpc, o, open, expired, received, sawClose>>

Init == /\ sent = 0 /\ req = <<>> /\ reqClosed = FALSE
        /\ outCh = <<>> /\ outChClosed = FALSE
        /\ bpc = "select" /\ o = <<>> /\ open = TRUE /\ expired = FALSE
        /\ received = <<>> /\ sawClose = FALSE

ProdSend == /\ sent < N /\ ~reqClosed /\ Len(req) < CapReq
            /\ req' = Append(req, sent + 1) /\ sent' = sent + 1
            /\ UNCHANGED <<reqClosed, outCh, outChClosed, bpc, o, open, expired, received, sawClose>>
ProdClose == /\ ~reqClosed /\ reqClosed' = TRUE
             /\ UNCHANGED <<sent, req, outCh, outChClosed, bpc, o, open, expired, received, sawClose>>
ConsRecv == /\ outCh # <<>>
            /\ received' = Append(received, Head(outCh)) /\ outCh' = Tail(outCh)
            /\ UNCHANGED <<sent, req, reqClosed, outChClosed, bpc, o, open, expired, sawClose>>
ConsClosed == /\ outCh = <<>> /\ outChClosed /\ ~sawClose /\ sawClose' = TRUE
              /\ UNCHANGED <<sent, req, reqClosed, outCh, outChClosed, bpc, o, open, expired, received>>

\* time passes
Tick == /\ ~expired /\ bpc \notin {"close", "done"} /\ expired' = TRUE
        /\ UNCHANGED <<sent, req, reqClosed, outCh, outChClosed, bpc, o, open, received, sawClose>>

SelRecv == /\ bpc = "select" /\ req # <<>>
           /\ o' = Append(o, Head(req)) /\ req' = Tail(req)
           /\ expired' = FALSE /\ bpc' = "check"
           /\ UNCHANGED <<sent, reqClosed, outCh, outChClosed, open, received, sawClose>>
SelClosed == /\ bpc = "select" /\ req = <<>> /\ reqClosed
             /\ open' = FALSE /\ expired' = FALSE /\ bpc' = "check"
             /\ UNCHANGED <<sent, req, reqClosed, outCh, outChClosed, o, received, sawClose>>
\* default branch: nothing ready; sleep
SelDefault == /\ bpc = "select" /\ req = <<>> /\ ~reqClosed
              /\ bpc' = "check"
              /\ UNCHANGED <<sent, req, reqClosed, outCh, outChClosed, o, open, expired, received, sawClose>>
Check == /\ bpc = "check"
         /\ bpc' = IF Len(o) > 0 /\ (Len(o) >= Size \/ expired) THEN "flush"
                   ELSE IF open THEN "select" ELSE "final"
         /\ UNCHANGED <<sent, req, reqClosed, outCh, outChClosed, o, open, expired, received, sawClose>>
Flush == /\ bpc = "flush" /\ Len(outCh) < CapOut
         /\ outCh' = Append(outCh, o) /\ o' = <<>> /\ expired' = FALSE
         /\ bpc' = IF open THEN "select" ELSE "final"
         /\ UNCHANGED <<sent, req, reqClosed, outChClosed, open, received, sawClose>>
Final == /\ bpc = "final"
         /\ bpc' = IF Len(o) > 0 THEN "flushLast" ELSE "close"
         /\ UNCHANGED <<sent, req, reqClosed, outCh, outChClosed, o, open, expired, received, sawClose>>
FlushLast == /\ bpc = "flushLast" /\ Len(outCh) < CapOut
             /\ outCh' = Append(outCh, o) /\ o' = <<>> /\ bpc' = "close"
             /\ UNCHANGED <<sent, req, reqClosed, outChClosed, open, expired, received, sawClose>>
Close == /\ bpc = "close" /\ outChClosed' = TRUE /\ bpc' = "done"
         /\ UNCHANGED <<sent, req, reqClosed, outCh, o, open, expired, received, sawClose>>

Terminated == sawClose /\ bpc = "done"
Done == Terminated /\ UNCHANGED vars

Batch == SelRecv \/ SelClosed \/ SelDefault \/ Check \/ Flush \/ Final \/ FlushLast \/ Close
Next == ProdSend \/ ProdClose \/ ConsRecv \/ ConsClosed \/ Tick \/ Batch \/ Done

Fair == WF_vars(ProdSend \/ ProdClose) /\ WF_vars(ConsRecv \/ ConsClosed) /\ WF_vars(Batch)
Spec == Init /\ [][Next]_vars /\ Fair

\* ------------------------------------------- the property (StreamAbs)
Seq1(n) == [k \in 1..n |-> k]
Flat(bs) == LET F[k \in 0..Len(bs)] == IF k = 0 THEN <<>> ELSE F[k - 1] \o bs[k] IN F[Len(bs)]
Abs == INSTANCE StreamAbs WITH given <- Seq1(sent), out <- Flat(received),
                               inClosed <- reqClosed, outClosed <- sawClose
Order == Abs!Order
Once == Abs!Once
ClosesOnlyWhenExhausted == Abs!ClosesOnlyWhenExhausted
BatchShape == \A k \in 1..Len(received) : Len(received[k]) >= 1 /\ Len(received[k]) <= Size
Refines == Abs!Spec(Size, {<<k>> : k \in 1..N})
EventuallyClosed == <>sawClose
=========================================================================
