------------------------------ MODULE Queue ------------------------------
(* Implementation-shaped model of engine/queue.New (engine/queue/queue.go):*)
(* a slice protected by a mutex between two goroutines.                   *)
(*   A:  for i := range input { m.Lock(); queue = append(queue, i); m.Unlock() } *)
(*       closed = true                         -- written outside the mutex*)
(*   B:  for running {                                                    *)
(*         m.Lock()                                                       *)
(*         if len(queue) > 0 { v = queue[0]; queue = queue[1:] } else if closed { running = false } *)
(*         m.Unlock()                                                     *)
(*         if v != nil { output <- v } }                                  *)
(*       close(output)                                                    *)
(* One action per channel operation and per critical section (a critical  *)
(* section contains no blocking operation, so it is atomic with respect   *)
(* to the other one).  Memory is sequentially consistent here; the data   *)
(* race on `closed` is outside this model (C17).                          *)
(* B spins while the slice is empty: the model has cycles and needs       *)
(* fairness for the closing half of the property.                         *)
EXTENDS Naturals, Sequences

CONSTANTS CapIn,   \* capacity of input (code: 50)
          CapOut,  \* capacity of output (code: 50)
          N        \* maximal input length

VARIABLES sent, inCh, inChClosed, outCh, outChClosed,
          queue, closed,
          apc, aItem,            \* A: "recv" | "crit" | "setClosed" | "done"
          bpc, bItem, running,   \* B: "crit" | "send" | "close" | "done"
          received, sawClose

vars == <<sent, inCh, inChClosed, outCh, outChClosed, queue, closed, apc, aItem, bpc, bItem, running, received, sawClose>>

Init == /\ sent = 0 /\ inCh = <<>> /\ inChClosed = FALSE /\ outCh = <<>> /\ outChClosed = FALSE
        /\ queue = <<>> /\ closed = FALSE
        /\ apc = "recv" /\ aItem = 0 /\ bpc = "crit" /\ bItem = 0 /\ running = TRUE
        /\ received = <<>> /\ sawClose = FALSE

ProdSend == /\ sent < N /\ ~inChClosed /\ Len(inCh) < CapIn
            /\ inCh' = Append(inCh, sent + 1) /\ sent' = sent + 1
            /\ UNCHANGED <<inChClosed, outCh, outChClosed, queue, closed, apc, aItem, bpc, bItem, running, received, sawClose>>
ProdClose == /\ ~inChClosed /\ inChClosed' = TRUE
             /\ UNCHANGED <<sent, inCh, outCh, outChClosed, queue, closed, apc, aItem, bpc, bItem, running, received, sawClose>>
ConsRecv == /\ outCh # <<>>
            /\ received' = Append(received, Head(outCh)) /\ outCh' = Tail(outCh)
            /\ UNCHANGED <<sent, inCh, inChClosed, outChClosed, queue, closed, apc, aItem, bpc, bItem, running, sawClose>>
ConsClosed == /\ outCh = <<>> /\ outChClosed /\ ~sawClose /\ sawClose' = TRUE
              /\ UNCHANGED <<sent, inCh, inChClosed, outCh, outChClosed, queue, closed, apc, aItem, bpc, bItem, running, received>>

ARecv == /\ apc = "recv" /\ inCh # <<>>
         /\ aItem' = Head(inCh) /\ inCh' = Tail(inCh) /\ apc' = "crit"
         /\ UNCHANGED <<sent, inChClosed, outCh, outChClosed, queue, closed, bpc, bItem, running, received, sawClose>>
ARecvClosed == /\ apc = "recv" /\ inCh = <<>> /\ inChClosed /\ apc' = "setClosed"
               /\ UNCHANGED <<sent, inCh, inChClosed, outCh, outChClosed, queue, closed, aItem, bpc, bItem, running, received, sawClose>>
ACrit == /\ apc = "crit" /\ queue' = Append(queue, aItem) /\ apc' = "recv"
         /\ UNCHANGED <<sent, inCh, inChClosed, outCh, outChClosed, closed, aItem, bpc, bItem, running, received, sawClose>>
ASetClosed == /\ apc = "setClosed" /\ closed' = TRUE /\ apc' = "done"
              /\ UNCHANGED <<sent, inCh, inChClosed, outCh, outChClosed, queue, aItem, bpc, bItem, running, received, sawClose>>

\* B's critical section; bItem = 0 stands for v == nil
BCrit == /\ bpc = "crit"
         /\ IF Len(queue) > 0
            THEN bItem' = Head(queue) /\ queue' = Tail(queue) /\ running' = running /\ bpc' = "send"
            ELSE /\ bItem' = 0 /\ queue' = queue
                 /\ running' = IF closed THEN FALSE ELSE running
                 /\ bpc' = IF closed THEN "close" ELSE "crit"
         /\ UNCHANGED <<sent, inCh, inChClosed, outCh, outChClosed, closed, apc, aItem, received, sawClose>>
BSend == /\ bpc = "send" /\ Len(outCh) < CapOut
         /\ outCh' = Append(outCh, bItem) /\ bpc' = "crit"
         /\ UNCHANGED <<sent, inCh, inChClosed, outChClosed, queue, closed, apc, aItem, bItem, running, received, sawClose>>
BClose == /\ bpc = "close" /\ outChClosed' = TRUE /\ bpc' = "done"
          /\ UNCHANGED <<sent, inCh, inChClosed, outCh, queue, closed, apc, aItem, bItem, running, received, sawClose>>

Terminated == sawClose /\ apc = "done" /\ bpc = "done"
Done == Terminated /\ UNCHANGED vars

A == ARecv \/ ARecvClosed \/ ACrit \/ ASetClosed
B == BCrit \/ BSend \/ BClose
Next == ProdSend \/ ProdClose \/ ConsRecv \/ ConsClosed \/ A \/ B \/ Done
Fair == WF_vars(ProdSend \/ ProdClose) /\ WF_vars(ConsRecv \/ ConsClosed) /\ WF_vars(A) /\ WF_vars(B)
Spec == Init /\ [][Next]_vars /\ Fair

Seq1(n) == [k \in 1..n |-> k]
Abs == INSTANCE StreamAbs WITH given <- Seq1(sent), out <- received,
                               inClosed <- inChClosed, outClosed <- sawClose
Order == Abs!Order
Once == Abs!Once
ClosesOnlyWhenExhausted == Abs!ClosesOnlyWhenExhausted
Refines == Abs!Spec(1, {<<k>> : k \in 1..N})
EventuallyClosed == <>sawClose
=========================================================================
