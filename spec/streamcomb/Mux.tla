------------------------------- MODULE Mux -------------------------------
(* Implementation-shaped model of gripper.ChannelMux                      *)
(* (gripper/channel_mux.go) with P one-in/one-out pipelines ("lanes").    *)
(*   Put(n, d):  m.inputs[n] <- d ; m.messageOrder <- n                   *)
(*   Close():    close(every m.inputs[c]) ; close(m.messageOrder)         *)
(*   runMux:     for n := range messageOrder { t := <-outputs[n]; outChannel <- t }*)
(*               close(outChannel)                                        *)
(* A lane is the caller-supplied pipeline: for i := range in { out <- f(i) }; close(out). *)
(* Lane channels may be unbuffered (CapLane = 0, as in TestMux): a send   *)
(* and the matching receive are then one joint action.                    *)
(* The caller (one goroutine, as in gripper/graph.go) puts items 1..N on  *)
(* lanes of its choice, then calls Close; a consumer drains outChannel.   *)
EXTENDS Naturals, Sequences

CONSTANTS P,         \* lanes
          CapLane,   \* capacity of the lane input and lane output channels (0 = unbuffered)
          CapOrder,  \* capacity of messageOrder (code: 5*QueueSize = 250)
          CapOut,    \* capacity of outChannel (code: QueueSize = 50)
          N          \* maximal number of Puts (every 0..N is explored)

Lanes == 1..P

VARIABLES
  sent,                     \* Puts that returned
  cpc, cLane, cClose,       \* caller: "pick" | "lane" | "order" | "closeLanes" | "closeOrder" | "done"
  laneIn, laneInClosed,     \* lane -> input channel
  laneOut, laneOutClosed,   \* lane -> output channel
  order, orderClosed,       \* messageOrder
  outCh, outChClosed,
  wpc, wItem,               \* lane workers: "recv" | "send" | "done"
  rpc, rLane, rItem,        \* runMux: "order" | "lane" | "send" | "done"
  closeCalled,              \* Close() has been entered (the caller's CloseIn)
  received, sawClose

vars == <<sent, cpc, cLane, cClose, laneIn, laneInClosed, laneOut, laneOutClosed, order, orderClosed,
          outCh, outChClosed, wpc, wItem, rpc, rLane, rItem, closeCalled, received, sawClose>>

Init ==
  /\ sent = 0 /\ cpc = "pick" /\ cLane = 1 /\ cClose = 1
  /\ laneIn = [l \in Lanes |-> <<>>] /\ laneInClosed = [l \in Lanes |-> FALSE]
  /\ laneOut = [l \in Lanes |-> <<>>] /\ laneOutClosed = [l \in Lanes |-> FALSE]
  /\ order = <<>> /\ orderClosed = FALSE /\ outCh = <<>> /\ outChClosed = FALSE
  /\ wpc = [l \in Lanes |-> "recv"] /\ wItem = [l \in Lanes |-> 0]
  /\ rpc = "order" /\ rLane = 1 /\ rItem = 0
  /\ closeCalled = FALSE /\ received = <<>> /\ sawClose = FALSE

\* ------------------------------------------------------------- caller
Pick(l) == /\ cpc = "pick" /\ sent < N
           /\ cLane' = l /\ cpc' = "lane"
           /\ UNCHANGED <<sent, cClose, laneIn, laneInClosed, laneOut, laneOutClosed, order, orderClosed,
                          outCh, outChClosed, wpc, wItem, rpc, rLane, rItem, closeCalled, received, sawClose>>
\* m.inputs[n] <- d, buffered lane
PutLaneBuf == /\ cpc = "lane" /\ CapLane > 0 /\ Len(laneIn[cLane]) < CapLane
              /\ laneIn' = [laneIn EXCEPT ![cLane] = Append(@, sent + 1)]
              /\ cpc' = "order"
              /\ UNCHANGED <<sent, cLane, cClose, laneInClosed, laneOut, laneOutClosed, order, orderClosed,
                             outCh, outChClosed, wpc, wItem, rpc, rLane, rItem, closeCalled, received, sawClose>>
\* m.inputs[n] <- d, unbuffered lane: rendezvous with the lane worker
PutLaneSync == /\ cpc = "lane" /\ CapLane = 0 /\ wpc[cLane] = "recv"
               /\ wItem' = [wItem EXCEPT ![cLane] = sent + 1]
               /\ wpc' = [wpc EXCEPT ![cLane] = "send"]
               /\ cpc' = "order"
               /\ UNCHANGED <<sent, cLane, cClose, laneIn, laneInClosed, laneOut, laneOutClosed, order, orderClosed,
                              outCh, outChClosed, rpc, rLane, rItem, closeCalled, received, sawClose>>
\* m.messageOrder <- n ; Put returns
PutOrder == /\ cpc = "order" /\ Len(order) < CapOrder
            /\ order' = Append(order, cLane)
            /\ sent' = sent + 1 /\ cpc' = "pick"
            /\ UNCHANGED <<cLane, cClose, laneIn, laneInClosed, laneOut, laneOutClosed, orderClosed,
                           outCh, outChClosed, wpc, wItem, rpc, rLane, rItem, closeCalled, received, sawClose>>
\* the caller decides to stop: Close()
CallClose == /\ cpc = "pick"
             /\ closeCalled' = TRUE /\ cpc' = "closeLanes" /\ cClose' = 1
             /\ UNCHANGED <<sent, cLane, laneIn, laneInClosed, laneOut, laneOutClosed, order, orderClosed,
                            outCh, outChClosed, wpc, wItem, rpc, rLane, rItem, received, sawClose>>
CloseLane == /\ cpc = "closeLanes"
             /\ laneInClosed' = [laneInClosed EXCEPT ![cClose] = TRUE]
             /\ IF cClose = P THEN cpc' = "closeOrder" /\ cClose' = cClose
                              ELSE cpc' = "closeLanes" /\ cClose' = cClose + 1
             /\ UNCHANGED <<sent, cLane, laneIn, laneOut, laneOutClosed, order, orderClosed,
                            outCh, outChClosed, wpc, wItem, rpc, rLane, rItem, closeCalled, received, sawClose>>
CloseOrder == /\ cpc = "closeOrder"
              /\ orderClosed' = TRUE /\ cpc' = "done"
              /\ UNCHANGED <<sent, cLane, cClose, laneIn, laneInClosed, laneOut, laneOutClosed, order,
                             outCh, outChClosed, wpc, wItem, rpc, rLane, rItem, closeCalled, received, sawClose>>

\* -------------------------------------------------------- lane workers
WRecv(l) == /\ wpc[l] = "recv" /\ CapLane > 0 /\ laneIn[l] # <<>>
            /\ wItem' = [wItem EXCEPT ![l] = Head(laneIn[l])]
            /\ laneIn' = [laneIn EXCEPT ![l] = Tail(@)]
            /\ wpc' = [wpc EXCEPT ![l] = "send"]
            /\ UNCHANGED <<sent, cpc, cLane, cClose, laneInClosed, laneOut, laneOutClosed, order, orderClosed,
                           outCh, outChClosed, rpc, rLane, rItem, closeCalled, received, sawClose>>
WRecvClosed(l) == /\ wpc[l] = "recv" /\ laneIn[l] = <<>> /\ laneInClosed[l]
                  /\ laneOutClosed' = [laneOutClosed EXCEPT ![l] = TRUE]
                  /\ wpc' = [wpc EXCEPT ![l] = "done"]
                  /\ UNCHANGED <<sent, cpc, cLane, cClose, laneIn, laneInClosed, laneOut, order, orderClosed,
                                 outCh, outChClosed, wItem, rpc, rLane, rItem, closeCalled, received, sawClose>>
WSendBuf(l) == /\ wpc[l] = "send" /\ CapLane > 0 /\ Len(laneOut[l]) < CapLane
               /\ laneOut' = [laneOut EXCEPT ![l] = Append(@, wItem[l])]
               /\ wpc' = [wpc EXCEPT ![l] = "recv"]
               /\ UNCHANGED <<sent, cpc, cLane, cClose, laneIn, laneInClosed, laneOutClosed, order, orderClosed,
                              outCh, outChClosed, wItem, rpc, rLane, rItem, closeCalled, received, sawClose>>

\* -------------------------------------------------------------- runMux
ROrder == /\ rpc = "order" /\ order # <<>>
          /\ rLane' = Head(order) /\ order' = Tail(order) /\ rpc' = "lane"
          /\ UNCHANGED <<sent, cpc, cLane, cClose, laneIn, laneInClosed, laneOut, laneOutClosed, orderClosed,
                         outCh, outChClosed, wpc, wItem, rItem, closeCalled, received, sawClose>>
ROrderClosed == /\ rpc = "order" /\ order = <<>> /\ orderClosed
                /\ outChClosed' = TRUE /\ rpc' = "done"
                /\ UNCHANGED <<sent, cpc, cLane, cClose, laneIn, laneInClosed, laneOut, laneOutClosed, order, orderClosed,
                               outCh, wpc, wItem, rLane, rItem, closeCalled, received, sawClose>>
RLaneBuf == /\ rpc = "lane" /\ CapLane > 0 /\ laneOut[rLane] # <<>>
            /\ rItem' = Head(laneOut[rLane])
            /\ laneOut' = [laneOut EXCEPT ![rLane] = Tail(@)]
            /\ rpc' = "send"
            /\ UNCHANGED <<sent, cpc, cLane, cClose, laneIn, laneInClosed, laneOutClosed, order, orderClosed,
                           outCh, outChClosed, wpc, wItem, rLane, closeCalled, received, sawClose>>
\* unbuffered lane output: the worker's send and runMux's receive coincide
RLaneSync == /\ rpc = "lane" /\ CapLane = 0 /\ wpc[rLane] = "send"
             /\ rItem' = wItem[rLane]
             /\ wpc' = [wpc EXCEPT ![rLane] = "recv"]
             /\ rpc' = "send"
             /\ UNCHANGED <<sent, cpc, cLane, cClose, laneIn, laneInClosed, laneOut, laneOutClosed, order, orderClosed,
                            outCh, outChClosed, wItem, rLane, closeCalled, received, sawClose>>
\* a closed, drained lane output yields the zero value (0 here): a lane that is not 1:1
RLaneClosed == /\ rpc = "lane" /\ laneOut[rLane] = <<>> /\ laneOutClosed[rLane]
               /\ rItem' = 0 /\ rpc' = "send"
               /\ UNCHANGED <<sent, cpc, cLane, cClose, laneIn, laneInClosed, laneOut, laneOutClosed, order, orderClosed,
                              outCh, outChClosed, wpc, wItem, rLane, closeCalled, received, sawClose>>
RSend == /\ rpc = "send" /\ Len(outCh) < CapOut
         /\ outCh' = Append(outCh, rItem) /\ rpc' = "order"
         /\ UNCHANGED <<sent, cpc, cLane, cClose, laneIn, laneInClosed, laneOut, laneOutClosed, order, orderClosed,
                        outChClosed, wpc, wItem, rLane, rItem, closeCalled, received, sawClose>>

\* ------------------------------------------------------------ consumer
ConsRecv == /\ outCh # <<>>
            /\ received' = Append(received, Head(outCh)) /\ outCh' = Tail(outCh)
            /\ UNCHANGED <<sent, cpc, cLane, cClose, laneIn, laneInClosed, laneOut, laneOutClosed, order, orderClosed,
                           outChClosed, wpc, wItem, rpc, rLane, rItem, closeCalled, sawClose>>
ConsClosed == /\ outCh = <<>> /\ outChClosed /\ ~sawClose
              /\ sawClose' = TRUE
              /\ UNCHANGED <<sent, cpc, cLane, cClose, laneIn, laneInClosed, laneOut, laneOutClosed, order, orderClosed,
                             outCh, outChClosed, wpc, wItem, rpc, rLane, rItem, closeCalled, received>>

Terminated == sawClose /\ cpc = "done" /\ rpc = "done" /\ \A l \in Lanes : wpc[l] = "done"
Done == Terminated /\ UNCHANGED vars

Caller == (\E l \in Lanes : Pick(l)) \/ PutLaneBuf \/ PutLaneSync \/ PutOrder \/ CallClose \/ CloseLane \/ CloseOrder
\* progress of the caller that fairness may force: everything but the free choice to put one more item
CallerMust == PutLaneBuf \/ PutLaneSync \/ PutOrder \/ CallClose \/ CloseLane \/ CloseOrder
Work(l) == WRecv(l) \/ WRecvClosed(l) \/ WSendBuf(l)
Run == ROrder \/ ROrderClosed \/ RLaneBuf \/ RLaneSync \/ RLaneClosed \/ RSend
Cons == ConsRecv \/ ConsClosed
Next == Caller \/ (\E l \in Lanes : Work(l)) \/ Run \/ Cons \/ Done

Fair == /\ WF_vars(CallerMust) /\ WF_vars(Run) /\ WF_vars(Cons)
        /\ \A l \in Lanes : WF_vars(Work(l))
Spec == Init /\ [][Next]_vars /\ Fair

\* ------------------------------------------- the property (StreamAbs)
Seq1(n) == [k \in 1..n |-> k]
Abs == INSTANCE StreamAbs WITH given <- Seq1(sent), out <- received,
                               inClosed <- closeCalled, outClosed <- sawClose
Order == Abs!Order
Once == Abs!Once
ClosesOnlyWhenExhausted == Abs!ClosesOnlyWhenExhausted
Refines == Abs!Spec(1, {<<k>> : k \in 1..N})
Closes == Abs!Closes
EventuallyClosed == <>sawClose
\* every lane is 1:1, so runMux never meets a closed lane while an order entry is pending
NeverZero == \A k \in 1..Len(received) : received[k] # 0
=========================================================================
