\* quick-tier configuration (the thorough tier generates a grid, see lib/checks/c13.py)
CONSTANTS
  W = 3
  CapIn = 1
  CapLane = 1
  CapOut = 1
  N = 7
SPECIFICATION Spec
INVARIANT Order
INVARIANT Once
INVARIANT ClosesOnlyWhenExhausted
PROPERTY Refines
INVARIANT InFlightBound
PROPERTY EventuallyClosed
