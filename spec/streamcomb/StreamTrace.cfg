SPECIFICATION Spec
INVARIANT EmitOK
INVARIANT EmitStuck
INVARIANT Order
INVARIANT ClosesOnlyWhenExhausted
CHECK_DEADLOCK FALSE
