\* quick-tier configuration (the thorough tier generates a grid, see lib/checks/c13.py)
CONSTANTS
  CapIn = 1
  CapOut = 1
  N = 7
SPECIFICATION Spec
INVARIANT Order
INVARIANT Once
INVARIANT ClosesOnlyWhenExhausted
PROPERTY Refines
PROPERTY EventuallyClosed
