---------------------------- MODULE StreamAbs ----------------------------
(* C13, property level.  A stream combinator as its caller sees it: the   *)
(* caller hands it items and finally closes the input; the combinator     *)
(* hands items back and finally closes the output.  The property says:    *)
(*   - the output is, at all times, a prefix of what was given (order),   *)
(*   - every given item comes out exactly once (no loss, no duplicate),   *)
(*   - the output closes only after the input was closed and everything   *)
(*     was delivered, and it does close.                                  *)
(* Nothing here is shaped like the code: no lanes, workers, buffers.      *)
(*                                                                        *)
(* "given" is the sequence of items the combinator owes its consumer.     *)
(* For the item streams one accepted input contributes one item; for the  *)
(* two-stage lookup processor one request contributes the 0..n results of *)
(* its loader, in the loader's order.  The batcher delivers chunks: each  *)
(* chunk is non-empty, not longer than the batch size, and the            *)
(* concatenation of the chunks obeys the same prefix rule.                *)
EXTENDS Naturals, Sequences

VARIABLES given,      \* sequence of items accepted so far
          out,        \* sequence of items delivered so far
          inClosed,   \* the caller closed the input
          outClosed   \* the consumer saw the output closed

absvars == <<given, out, inClosed, outClosed>>

Init == given = <<>> /\ out = <<>> /\ inClosed = FALSE /\ outClosed = FALSE

\* ---- the caller's four operations (guards separate from effects, so that
\* ---- a trace specification can ask why an observed operation is refused)
PutOK == ~inClosed
Put(items) == /\ PutOK
              /\ given' = given \o items
              /\ UNCHANGED <<out, inClosed, outClosed>>

CloseInOK == ~inClosed
CloseIn == /\ CloseInOK
           /\ inClosed' = TRUE
           /\ UNCHANGED <<given, out, outClosed>>

GetOK(chunk, limit) ==
    /\ ~outClosed
    /\ chunk # <<>>
    /\ Len(chunk) <= limit
    /\ Len(out) + Len(chunk) <= Len(given)
    /\ chunk = SubSeq(given, Len(out) + 1, Len(out) + Len(chunk))
Get(chunk, limit) == /\ GetOK(chunk, limit)
                     /\ out' = out \o chunk
                     /\ UNCHANGED <<given, inClosed, outClosed>>

CloseOutOK == ~outClosed /\ inClosed /\ out = given
CloseOut == /\ CloseOutOK
            /\ outClosed' = TRUE
            /\ UNCHANGED <<given, out, inClosed>>

\* ---- the same statements as state predicates
IsPrefix(s, q) == Len(s) <= Len(q) /\ s = SubSeq(q, 1, Len(s))
Occ(s, v) == LET F[k \in 0..Len(s)] == IF k = 0 THEN 0 ELSE F[k - 1] + (IF s[k] = v THEN 1 ELSE 0)
             IN F[Len(s)]
Order == IsPrefix(out, given)
Once  == /\ \A k \in 1..Len(out) : Occ(out, out[k]) <= Occ(given, out[k])
         /\ outClosed => \A k \in 1..Len(given) : Occ(out, given[k]) = Occ(given, given[k])
ClosesOnlyWhenExhausted == outClosed => (inClosed /\ out = given)

\* ---- as a specification other specifications can refine
Next(limit, Items) ==
    \/ \E it \in Items : Put(it)
    \/ CloseIn
    \/ \E n \in 1..limit : Len(out) + n <= Len(given) /\ Get(SubSeq(given, Len(out) + 1, Len(out) + n), limit)
    \/ CloseOut
Spec(limit, Items) == Init /\ [][Next(limit, Items)]_absvars
\* liveness half of "closes exactly when the input is exhausted"
Closes == inClosed ~> outClosed
=========================================================================
