CONSTANTS
 Mode = "judge"
 HistLen = 0
 RestartSets = {}
INIT RInit
NEXT RNext
INVARIANT EmitVerdict
CHECK_DEADLOCK FALSE
