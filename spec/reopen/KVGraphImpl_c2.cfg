CONSTANTS
 Mode = "gen"
 HistLen = 2
 LenientRelabel = FALSE
 NeedGraph = FALSE
 RestartSets = {{}}
 Pinned = FALSE
INIT IInit
NEXT INext
VIEW View
INVARIANT EmitCrash
CHECK_DEADLOCK FALSE
