CONSTANTS
 Mode = "gen"
 HistLen = 2
 RestartSets = {{}}
 Pinned = FALSE
INIT IInit
NEXT INext
VIEW View
INVARIANT EmitCrash
CHECK_DEADLOCK FALSE
