CONSTANTS
 Mode = "gen"
 HistLen = 4
 LenientRelabel = FALSE
 NeedGraph = TRUE
 RestartSets = {{1}, {2}, {3}}
INIT RInit
NEXT RNext
INVARIANT EmitHistR
CHECK_DEADLOCK FALSE
