--------------------------- MODULE KVGraphImpl ---------------------------
(* C04, implementation-shaped part: kvgraph as a set of keys plus the      *)
(* in-memory registry of indexed fields, and every API call as the         *)
(* sequence of TOP-LEVEL storage writes it issues (each atomic).  It       *)
(* exists to enumerate the crash points - (history, call, k) with k        *)
(* ranging over the writes of the call - and to predict what each leaves   *)
(* behind.  Its predictions are leads only: the verdict is taken by        *)
(* Reopen.tla (Admissible / Integrity) on what the real store answers, and *)
(* the real number of writes is reported by the harness; a difference is   *)
(* a MODEL-DRIFT note, never a violation.                                  *)
(*                                                                         *)
(* Key families (tuples; the value, where one matters, is part of the     *)
(* tuple and KeyOf strips it):                                             *)
(*   <<"g",g>>  <<"v",g,id,label,data>>  <<"e",g,eid,src,dst,label,data>>  *)
(*   <<"s",g,src,dst,eid,label>>  <<"d",g,dst,src,eid,label>>              *)
(*   <<"f",g,kind>> (indexed field g.kind.label)  <<"t",g,kind,label>>     *)
(*   <<"i",g,kind,label,id>>      (the D| document keys are never read)    *)
(* Write sequences follow kvgraph/graph.go, graphdb.go, index.go and       *)
(* kvindex/kvindex.go as of the tree with the C04 fixes:                   *)
(*   AddGraph     [4 prefix deletes + 3 per leftover field] + Set f, Set f, Set g *)
(*   DeleteGraph  Delete g, 4 prefix deletes, 3 per indexed field          *)
(*   AddVertex    1 bulk write + 1 transaction per label a vertex lost     *)
(*   AddEdge/BulkAdd  1 bulk write + 3 deletes per superseded edge key     *)
(*                (+ 1 transaction when the label changed), then as AddVertex *)
(*   DelEdge, DelVertex  1 transaction                                     *)
(* Pinned = TRUE models the tree before the fixes (Fields not reloaded at  *)
(* open, DelEdge/DelVertex/DeleteGraph as separate writes, graph key last; *)
(* the label clean-up after a re-labelling is modelled as in the fixed     *)
(* tree, where it is one transaction instead of one or two deletes)        *)
EXTENDS Reopen

CONSTANTS Pinned

VARIABLES K, F
ivars == <<gs, hist, fin, rset, l, K, F>>

------------------------------------------------------------------------
KeyOf(x) == CASE x[1] = "v" -> SubSeq(x, 1, 3) [] x[1] = "e" -> SubSeq(x, 1, 6) [] OTHER -> x
HasPrefix(x, p) == Len(x) >= Len(p) /\ SubSeq(x, 1, Len(p)) = p

\* index keys to drop with the elements `gone` (set of <<id, label>>) of one kind: their entries and the
\* terms of the labels no other element carries
Unindex(Ks, g, kind, gone) ==
  {<<"i", g, kind, x[2], x[1]>> : x \in gone}
  \cup {<<"t", g, kind, lb>> : lb \in {lbl \in {x[2] : x \in gone} :
            ~\E y \in Ks : y[1] = "i" /\ y[2] = g /\ y[3] = kind /\ y[4] = lbl /\ <<y[5], lbl>> \notin gone}}

\* a top-level write: puts (in order, last wins), deleted keys, deleted prefixes, and label-index entries
\* <<g, kind, id, label>> whose keys are looked up when the write is issued
W(t, put, del, pre) == [t |-> t, put |-> put, del |-> del, pre |-> pre, unidx |-> {}]
WU(g, kind, id, label) == [t |-> "Update", put |-> <<>>, del |-> {}, pre |-> {}, unidx |-> {<<g, kind, id, label>>}]
Step(Ks, w) ==
  LET dels == w.del \cup UNION {Unindex(Ks, u[1], u[2], {<<u[3], u[4]>>}) : u \in w.unidx}
      kept == {x \in Ks : KeyOf(x) \notin dels /\ ~\E p \in w.pre : HasPrefix(x, p)}
      lastp == {j \in DOMAIN w.put : ~\E j2 \in DOMAIN w.put : j2 > j /\ KeyOf(w.put[j2]) = KeyOf(w.put[j])}
  IN {x \in kept : ~\E j \in DOMAIN w.put : KeyOf(w.put[j]) = KeyOf(x)} \cup {w.put[j] : j \in lastp}
\* states after each write: <<K0, K1, ..., Kn>>
Exec(Ks, ws) == LET f[i \in 0..Len(ws)] == IF i = 0 THEN <<Ks>> ELSE Append(f[i - 1], Step(f[i - 1][i], ws[i])) IN f[Len(ws)]

GraphsOf(Ks) == {x[2] : x \in {y \in Ks : y[1] = "g"}}
FieldKeys(Ks, g) == {x \in Ks : x[1] = "f" /\ x[2] = g}
\* ListFields order: "g.e.label" before "g.v.label"
FieldSeq(Ks, g) == (IF <<"f", g, "e">> \in Ks THEN <<"e">> ELSE <<>>) \o (IF <<"f", g, "v">> \in Ks THEN <<"v">> ELSE <<>>)

FlatSeq(qq) == LET f[i \in 0..Len(qq)] == IF i = 0 THEN <<>> ELSE f[i - 1] \o qq[i] IN f[Len(qq)]

PurgeWrites(Ks, g) ==
  << W("DeletePrefix", <<>>, {}, {<<"e", g>>}), W("DeletePrefix", <<>>, {}, {<<"v", g>>}),
     W("DeletePrefix", <<>>, {}, {<<"s", g>>}), W("DeletePrefix", <<>>, {}, {<<"d", g>>}) >>
FieldWrites(Ks, g) ==
  FlatSeq([j \in DOMAIN FieldSeq(Ks, g) |-> LET k == FieldSeq(Ks, g)[j] IN
     << W("DeletePrefix", <<>>, {}, {<<"t", g, k>>}), W("DeletePrefix", <<>>, {}, {<<"i", g, k>>}), W("Delete", <<>>, {<<"f", g, k>>}, {}) >>])

\* what one element writes inside a bulk write
VPuts(Fs, g, r) == <<<<"v", g, r.id, r.label, r.data>>>>
                   \o (IF <<g, "v">> \in Fs THEN <<<<"i", g, "v", r.label, r.id>>, <<"t", g, "v", r.label>>>> ELSE <<>>)
EPuts(Fs, g, r) == <<<<"e", g, r.id, r.from, r.to, r.label, r.data>>, <<"s", g, r.from, r.to, r.id, r.label>>, <<"d", g, r.to, r.from, r.id, r.label>>>>
                   \o (IF <<g, "e">> \in Fs THEN <<<<"i", g, "e", r.label, r.id>>, <<"t", g, "e", r.label>>>> ELSE <<>>)
ElemsValid(c) == \A i \in DOMAIN c.elems : IF c.elems[i].k = "v" THEN ValidV(c.elems[i].r) ELSE ValidE(c.elems[i].r)

EdgeKeys(Ks, g, P(_)) == {x \in Ks : x[1] = "e" /\ x[2] = g /\ P(x)}
AdjOf(x) == {<<"s", x[2], x[4], x[5], x[3], x[6]>>, <<"d", x[2], x[5], x[4], x[3], x[6]>>}

\* the writes of call c in key state Ks with registry Fs
Writes(Ks, Fs, c) ==
  CASE c.op = "AddGraph" ->
         IF c.g \in BadGraphNames THEN <<>>
         ELSE (IF Pinned \/ c.g \in GraphsOf(Ks) THEN <<>> ELSE PurgeWrites(Ks, c.g) \o FieldWrites(Ks, c.g))
              \o << W("Set", <<<<"f", c.g, "v">>>>, {}, {}), W("Set", <<<<"f", c.g, "e">>>>, {}, {}), W("Set", <<<<"g", c.g>>>>, {}, {}) >>
    [] c.op = "DeleteGraph" ->
         IF Pinned THEN PurgeWrites(Ks, c.g) \o <<W("Delete", <<>>, {<<"g", c.g>>}, {})>> \o FieldWrites(Ks, c.g)
         ELSE <<W("Delete", <<>>, {<<"g", c.g>>}, {})>> \o PurgeWrites(Ks, c.g) \o FieldWrites(Ks, c.g)
    [] c.op \in {"AddVertex", "AddEdge", "BulkAdd"} ->
         IF c.g \notin GraphsOf(Ks) THEN <<>>
         ELSE IF ~ElemsValid(c) THEN <<W("BulkWrite", <<>>, {}, {})>>
         ELSE LET puts == FlatSeq([i \in DOMAIN c.elems |-> IF c.elems[i].k = "v" THEN VPuts(Fs, c.g, c.elems[i].r) ELSE EPuts(Fs, c.g, c.elems[i].r)])
                  bw == W("BulkWrite", puts, {}, {})
                  K1 == Step(Ks, bw)
                  eids == {c.elems[i].r.id : i \in {j \in DOMAIN c.elems : c.elems[j].k = "e"}}
                  \* the key written last for every edge id of the batch stays
                  keepk == {KeyOf(puts[j]) : j \in {m \in DOMAIN puts : puts[m][1] = "e" /\ ~\E m2 \in DOMAIN puts : m2 > m /\ puts[m2][1] = "e" /\ puts[m2][3] = puts[m][3]}}
                  stale == SetToSeq(EdgeKeys(K1, c.g, LAMBDA x : x[3] \in eids /\ KeyOf(x) \notin keepk))
                  newLabel(eid) == (CHOOSE k \in keepk : k[3] = eid)[6]
                  \* vertices whose id carried another label before (in the store or earlier in the batch)
                  vix == {i \in DOMAIN c.elems : c.elems[i].k = "v"}
                  finalLabel(id) == c.elems[CHOOSE i \in vix : c.elems[i].r.id = id /\ ~\E i2 \in vix : i2 > i /\ c.elems[i2].r.id = id].r.label
                  oldLabels == {<<c.elems[i].r.id, lb>> : i \in vix, lb \in {y[4] : y \in {z \in Ks : z[1] = "v" /\ z[2] = c.g}} \cup {c.elems[j].r.label : j \in vix}}
                  relab == SetToSeq({x \in oldLabels : /\ x[2] # finalLabel(x[1])
                                                       /\ \/ \E y \in Ks : y[1] = "v" /\ y[2] = c.g /\ y[3] = x[1] /\ y[4] = x[2]
                                                          \/ \E j \in vix : c.elems[j].r.id = x[1] /\ c.elems[j].r.label = x[2]})
              IN <<bw>>
                 \o FlatSeq([j \in DOMAIN stale |-> LET x == stale[j] IN
                      << W("Delete", <<>>, {KeyOf(x)}, {}), W("Delete", <<>>, {<<"s", x[2], x[4], x[5], x[3], x[6]>>}, {}),
                         W("Delete", <<>>, {<<"d", x[2], x[5], x[4], x[3], x[6]>>}, {}) >>
                      \o (IF newLabel(x[3]) # x[6] THEN <<WU(c.g, "e", x[3], x[6])>> ELSE <<>>)])
                 \o [j \in DOMAIN relab |-> WU(c.g, "v", relab[j][1], relab[j][2])]
    [] c.op = "DelEdge" ->
         IF c.g \notin GraphsOf(Ks) \/ EdgeKeys(Ks, c.g, LAMBDA x : x[3] = c.id) = {} THEN <<>>
         ELSE LET x == CHOOSE y \in EdgeKeys(Ks, c.g, LAMBDA z : z[3] = c.id) : TRUE
                  ix == Unindex(Ks, c.g, "e", {<<c.id, x[6]>>})
              IN IF Pinned
                 THEN << W("Delete", <<>>, {KeyOf(x)}, {}), W("Delete", <<>>, {<<"s", x[2], x[4], x[5], x[3], x[6]>>}, {}),
                         W("Delete", <<>>, {<<"d", x[2], x[5], x[4], x[3], x[6]>>}, {}), W("Delete", <<>>, {<<"i", c.g, "e", x[6], c.id>>}, {}) >>
                      \o (IF <<"t", c.g, "e", x[6]>> \in ix THEN <<W("Delete", <<>>, {<<"t", c.g, "e", x[6]>>}, {})>> ELSE <<>>)
                 ELSE << W("Update", <<>>, {KeyOf(x)} \cup AdjOf(x) \cup ix, {}) >>
    [] c.op = "DelVertex" ->
         IF c.g \notin GraphsOf(Ks) \/ ~\E y \in Ks : y[1] = "v" /\ y[2] = c.g /\ y[3] = c.id THEN <<>>
         ELSE LET vx == CHOOSE y \in Ks : y[1] = "v" /\ y[2] = c.g /\ y[3] = c.id
                  \* incident edges are found through the adjacency keys
                  inc == {y \in Ks : y[1] \in {"s", "d"} /\ y[2] = c.g /\ y[3] = c.id}
                  ekeys == {IF y[1] = "s" THEN <<"e", c.g, y[5], y[3], y[4], y[6]>> ELSE <<"e", c.g, y[5], y[4], y[3], y[6]>> : y \in inc}
                  adj == UNION {{<<"s", k[2], k[4], k[5], k[3], k[6]>>, <<"d", k[2], k[5], k[4], k[3], k[6]>>} : k \in ekeys}
                  gone == {<<k[3], k[6]>> : k \in ekeys}
                  tx == {KeyOf(vx)} \cup ekeys \cup adj
              IN IF Pinned
                 THEN <<W("Update", <<>>, tx, {})>>
                      \o <<W("Delete", <<>>, {<<"i", c.g, "v", vx[4], c.id>>}, {})>>
                      \o (IF <<"t", c.g, "v", vx[4]>> \in Unindex(Ks, c.g, "v", {<<c.id, vx[4]>>}) THEN <<W("Delete", <<>>, {<<"t", c.g, "v", vx[4]>>}, {})>> ELSE <<>>)
                      \o LET gs2 == SetToSeq(gone) IN FlatSeq([j \in DOMAIN gs2 |->
                             <<W("Delete", <<>>, {<<"i", c.g, "e", gs2[j][2], gs2[j][1]>>}, {})>>
                             \o (IF \A y \in Ks : (y[1] = "i" /\ y[2] = c.g /\ y[3] = "e" /\ y[4] = gs2[j][2]) => \E m \in 1..j : gs2[m] = <<y[5], y[4]>>
                                 THEN <<W("Delete", <<>>, {<<"t", c.g, "e", gs2[j][2]>>}, {})>> ELSE <<>>)])
                 ELSE <<W("Update", <<>>, tx \cup Unindex(Ks, c.g, "v", {<<c.id, vx[4]>>}) \cup Unindex(Ks, c.g, "e", gone), {})>>

\* registry after a completed call
FieldsAfter(Ks, Fs, c) ==
  CASE c.op = "AddGraph" /\ c.g \notin BadGraphNames -> Fs \cup {<<c.g, "v">>, <<c.g, "e">>}
    [] c.op = "DeleteGraph" -> Fs \ {<<c.g, x[3]>> : x \in FieldKeys(Ks, c.g)}
    [] OTHER -> Fs
\* registry built at open
FieldsAtOpen(Ks) == IF Pinned THEN {} ELSE {<<x[2], x[3]>> : x \in {y \in Ks : y[1] = "f"}}

------------------------------------------------------------------------
(* what the keys make observable, and their consistency                   *)
AbsOf(Ks) == [g \in GraphsOf(Ks) |->
   [V |-> [id \in {x[3] : x \in {y \in Ks : y[1] = "v" /\ y[2] = g}} |->
              LET x == CHOOSE y \in Ks : y[1] = "v" /\ y[2] = g /\ y[3] = id IN [label |-> x[4], data |-> x[5]]],
    E |-> [id \in {x[3] : x \in {y \in Ks : y[1] = "e" /\ y[2] = g}} |->
              LET x == CHOOSE y \in Ks : y[1] = "e" /\ y[2] = g /\ y[3] = id IN [label |-> x[6], from |-> x[4], to |-> x[5], data |-> x[7]]]]]
ModelIntegrity(Ks) == \A g \in GraphsOf(Ks) :
   /\ \A x \in Ks : (x[1] = "e" /\ x[2] = g) => AdjOf(x) \subseteq Ks /\ ~\E y \in Ks : y[1] = "e" /\ y[2] = g /\ y[3] = x[3] /\ y # x
   /\ \A x \in Ks : (x[1] = "s" /\ x[2] = g) => \E y \in Ks : y[1] = "e" /\ SubSeq(y, 1, 6) = <<"e", g, x[5], x[3], x[4], x[6]>>
   /\ \A x \in Ks : (x[1] = "d" /\ x[2] = g) => \E y \in Ks : y[1] = "e" /\ SubSeq(y, 1, 6) = <<"e", g, x[5], x[4], x[3], x[6]>>
   /\ \A x \in Ks : (x[1] = "v" /\ x[2] = g) => <<"i", g, "v", x[4], x[3]>> \in Ks /\ <<"t", g, "v", x[4]>> \in Ks
   /\ \A x \in Ks : (x[1] = "e" /\ x[2] = g) => <<"i", g, "e", x[6], x[3]>> \in Ks /\ <<"t", g, "e", x[6]>> \in Ks
   /\ \A x \in Ks : (x[1] = "i" /\ x[2] = g) =>
         IF x[3] = "v" THEN \E y \in Ks : y[1] = "v" /\ y[2] = g /\ y[3] = x[5] /\ y[4] = x[4]
                       ELSE \E y \in Ks : y[1] = "e" /\ y[2] = g /\ y[3] = x[5] /\ y[6] = x[4]
   /\ \A x \in Ks : (x[1] = "t" /\ x[2] = g) => \E y \in Ks : y[1] = "i" /\ y[2] = g /\ y[3] = x[3] /\ y[4] = x[4]

------------------------------------------------------------------------
IDo(c) == /\ RDo(c)
          /\ LET ws == Writes(K, F, c) IN
               /\ K' = Exec(K, ws)[Len(ws) + 1]
               /\ F' = FieldsAfter(K, F, c)
IRestart == Restart /\ K' = K /\ F' = FieldsAtOpen(K)

IInit == GenInit /\ K = {} /\ F = {}
INext == \/ /\ Len(hist) < HistLen
            /\ IF RestartDue THEN IRestart ELSE \E c \in Calls : IDo(c)
         \/ (RFinish /\ UNCHANGED <<K, F>>)

\* states are told apart by what is stored, not by how it was reached (cfg: VIEW View)
View == <<gs, K, F, rset, Len(hist)>>

\* the crash points out of the current state, with the model's prediction for each
CrashCases ==
  LET cs == SetToSeq({c \in Calls : Enabled(c)}) IN
  [j \in DOMAIN cs |->
     LET c == cs[j] ws == Writes(K, F, c) st == Exec(K, ws) IN
     [call |-> c, n |-> Len(ws), kinds |-> [m \in DOMAIN ws |-> ws[m].t],
      \* prediction for a crash before write k: the keys are st[k]
      predBad |-> [k \in DOMAIN ws |-> ~(ModelIntegrity(st[k]) /\ Admissible(gs, c, AbsOf(st[k])))]]]
CrashMsg == [calls |-> [i \in DOMAIN hist |-> hist[i].call],
             relabel |-> \E i \in DOMAIN hist : hist[i].relabel,
             modelOK |-> (AbsOf(K) = gs /\ ModelIntegrity(K)),
             cases |-> CrashCases]
\* exhaustive runs: the crash points out of every distinct stored state
EmitCrash == (Mode = "gen") => Emit("crashcase", CrashMsg)
\* random walks: the crash points at the end of the walk
EmitCrashEnd == (Mode = "gen" /\ fin) => Emit("crashcase", CrashMsg)
=======================================================================
