CONSTANTS
 Mode = "gen"
 HistLen = 2
 RestartSets = {{1}}
INIT RInit
NEXT RNext
INVARIANT Transparent
INVARIANT SelfCheck
CHECK_DEADLOCK FALSE
