CONSTANTS
 Mode = "gen"
 HistLen = 2
 LenientRelabel = FALSE
 RestartSets = {{1}}
INIT RInit
NEXT RNext
INVARIANT Transparent
INVARIANT SelfCheck
CHECK_DEADLOCK FALSE
