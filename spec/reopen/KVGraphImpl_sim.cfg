CONSTANTS
 Mode = "gen"
 HistLen = 7
 LenientRelabel = FALSE
 NeedGraph = FALSE
 RestartSets = {{}, {3}, {5}}
 Pinned = FALSE
INIT IInit
NEXT INext
INVARIANT EmitCrashEnd
CHECK_DEADLOCK FALSE
