CONSTANTS
 Mode = "judge"
 HistLen = 0
 LenientRelabel = TRUE
 RestartSets = {}
INIT RInit
NEXT RNext
INVARIANT EmitVerdict
CHECK_DEADLOCK FALSE
