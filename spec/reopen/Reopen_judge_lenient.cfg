CONSTANTS
 Mode = "judge"
 HistLen = 0
 LenientRelabel = TRUE
 NeedGraph = FALSE
 RestartSets = {}
INIT RInit
NEXT RNext
INVARIANT EmitVerdict
CHECK_DEADLOCK FALSE
