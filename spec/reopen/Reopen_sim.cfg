CONSTANTS
 Mode = "gen"
 HistLen = 12
 LenientRelabel = FALSE
 NeedGraph = FALSE
 RestartSets = {{3}, {2, 7}, {5, 9}, {4}, {6, 10}, {1, 8}}
INIT RInit
NEXT RNext
INVARIANT EmitHistR
CHECK_DEADLOCK FALSE
