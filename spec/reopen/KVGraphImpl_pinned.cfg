CONSTANTS
 Mode = "gen"
 HistLen = 2
 LenientRelabel = FALSE
 NeedGraph = FALSE
 RestartSets = {{}}
 Pinned = TRUE
INIT IInit
NEXT INext
VIEW View
INVARIANT EmitCrash
CHECK_DEADLOCK FALSE
