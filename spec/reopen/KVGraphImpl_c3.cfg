CONSTANTS
 Mode = "gen"
 HistLen = 3
 LenientRelabel = FALSE
 NeedGraph = FALSE
 RestartSets = {{}}
 Pinned = FALSE
INIT IInit
NEXT INext
VIEW View
INVARIANT EmitCrash
CHECK_DEADLOCK FALSE
