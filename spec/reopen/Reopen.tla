----------------------------- MODULE Reopen -----------------------------
(* C04 (abstract, property-level): what closing/reopening a database and  *)
(* what dying in the middle of a mutating request may do to the abstract   *)
(* store of GraphStore.tla (a verbatim copy of spec/store/GraphStore.tla:  *)
(* Eff, Calls, Obs; the check notes when the two files differ).            *)
(*                                                                         *)
(*  Restart      clean close + reopen: the observable state is unchanged.  *)
(*               `gs` therefore IS the never-stopped twin: every later     *)
(*               call applies Eff to it exactly as if nothing had happened *)
(*               (Transparent).  Histories carry Restart as a step whose   *)
(*               specified `after` is the state before it.                 *)
(*  Crash        call c dies before one of its storage writes.  The        *)
(*               specified outcome after reopening is a SET of states:     *)
(*               Admissible(s, c, s2) - per element of every graph either  *)
(*               the value before c or the value after c (so everything    *)
(*               acknowledged before c and not touched by c is present     *)
(*               unchanged, nothing foreign appears) - and the observation *)
(*               read back must have Integrity: every lookup, adjacency    *)
(*               and label-index answer refers to an element of the        *)
(*               listing, and every listed element is found by lookup,     *)
(*               adjacency and label index.  Integrity is a predicate over *)
(*               an OBSERVATION (harness/store.Observe, reshaped           *)
(*               syntactically by the check), so TLC judges what the real  *)
(*               store answered (Mode "judge").                            *)
(*                                                                         *)
(* Nothing here knows about keys or the number of writes: see KVGraphImpl. *)
EXTENDS GraphStore, IOUtils

CONSTANTS Mode,          \* "gen": histories with restarts; "judge": read observations back
          RestartSets,   \* set of sets of positions (number of steps done) at which a restart is inserted
          LenientRelabel,\* TRUE: do not judge stale label entries once the history re-labelled an element
          NeedGraph      \* TRUE: generate only histories that begin by creating a graph (nothing is stored before)

VARIABLES rset, l
rvars == <<gs, hist, fin, rset, l>>

------------------------------------------------------------------------
(* re-labelling an existing element (or twice in one batch) used to leave  *)
(* the old label entry behind (a finding of C03, repaired since):          *)
(* histories are flagged so that the stale-entry clause can be switched    *)
(* off after it (LenientRelabel) on trees that still have that defect      *)
Relabels(s, c) ==
  /\ c.op \in {"AddVertex", "AddEdge", "BulkAdd"}
  /\ c.g \in DOMAIN s
  /\ \E i \in DOMAIN c.elems : LET el == c.elems[i] IN
        \/ (el.k = "v" /\ el.r.id \in DOMAIN s[c.g].V /\ s[c.g].V[el.r.id].label # el.r.label)
        \/ (el.k = "e" /\ el.r.id \in DOMAIN s[c.g].E /\ s[c.g].E[el.r.id].label # el.r.label)
        \/ \E j \in DOMAIN c.elems : j < i /\ c.elems[j].k = el.k /\ c.elems[j].r.id = el.r.id
                                      /\ c.elems[j].r.label # el.r.label

ChangedBy(s, s2) == {g \in GraphNames : (g \in DOMAIN s) # (g \in DOMAIN s2)
                                          \/ (g \in DOMAIN s /\ g \in DOMAIN s2 /\ s[g] # s2[g])}
Entry(s, c) == LET r == Eff(s, c) IN
  [call |-> c, res |-> r[2], after |-> r[1], changed |-> ChangedBy(s, r[1]), relabel |-> Relabels(s, c)]
RestartCall == [op |-> "Restart", g |-> ""]
RestartEntry(s) == [call |-> RestartCall, res |-> "ok", after |-> s, changed |-> {}, relabel |-> FALSE]

RDo(c) == /\ Enabled(c)
          /\ NeedGraph => (gs # <<>> \/ (c.op = "AddGraph" /\ c.g \notin BadGraphNames))
          /\ gs' = Eff(gs, c)[1]
          /\ hist' = Append(hist, Entry(gs, c))
          /\ UNCHANGED <<rset, l, fin>>

\* clean close + reopen: observable state unchanged (Transparent: gs is the never-stopped twin)
Restart == /\ gs' = gs
           /\ hist' = Append(hist, RestartEntry(gs))
           /\ UNCHANGED <<rset, l, fin>>

RestartDue == Len(hist) \in rset /\ (hist = <<>> \/ hist[Len(hist)].call.op # "Restart")

GenInit == gs = <<>> /\ hist = <<>> /\ fin = FALSE /\ rset \in RestartSets /\ l = 0
\* a complete history is marked by a separate step (in -simulate mode TLC evaluates invariants on every sibling)
RFinish == Len(hist) = HistLen /\ ~fin /\ fin' = TRUE /\ UNCHANGED <<gs, hist, rset, l>>
GenNext == \/ /\ Len(hist) < HistLen
              /\ IF RestartDue THEN Restart ELSE \E c \in Calls : RDo(c)
           \/ RFinish

------------------------------------------------------------------------
(* running a list of calls (with Restart steps) from the empty store      *)
RunCalls(cs) == LET f[i \in 0..Len(cs)] ==
                      IF i = 0 THEN <<>>
                      ELSE IF cs[i].op = "Restart" THEN f[i - 1] ELSE Eff(f[i - 1], cs[i])[1]
                IN f
AnyRelabel(cs) == LET f == RunCalls(cs) IN \E i \in DOMAIN cs : cs[i].op # "Restart" /\ Relabels(f[i - 1], cs[i])

------------------------------------------------------------------------
(* Admissible outcomes of a crash inside call c issued in state s         *)
Look(t, id) == IF id \in DOMAIN t THEN <<"some", t[id]>> ELSE <<"none">>
GraphOr(s, g) == IF g \in DOMAIN s THEN s[g] ELSE EmptyG

\* classes of inadmissibility of the state s2 observed after reopening
Tbl(G, kind) == IF kind = "V" THEN G.V ELSE G.E
AdmBad(s, c, s2) ==
  LET a == Eff(s, c)[1]
      Old(g, k, id) == Look(Tbl(GraphOr(s, g), k), id)
      New(g, k, id) == Look(Tbl(GraphOr(a, g), k), id)
      Seen(g, k, id) == Look(Tbl(s2[g], k), id)
      Elems == UNION {{<<g, k, id>> : id \in DOMAIN Tbl(GraphOr(s, g), k) \cup DOMAIN Tbl(GraphOr(a, g), k) \cup DOMAIN Tbl(s2[g], k)} :
                         g \in DOMAIN s2, k \in {"V", "E"}}
      Flag(name, W) == IF W = {} THEN {} ELSE {name}
  IN  Flag("graph-existence", {g \in GraphNames \cup DOMAIN s2 :
            \/ (g \in DOMAIN s2 /\ g \notin DOMAIN s /\ g \notin DOMAIN a)
            \/ (g \notin DOMAIN s2 /\ g \in DOMAIN s /\ g \in DOMAIN a)})
      \cup
      \* not touched by c and acknowledged before: must be there, unchanged
      Flag("acknowledged-element-lost-or-changed", {x \in Elems :
            /\ Old(x[1], x[2], x[3]) = New(x[1], x[2], x[3]) /\ Old(x[1], x[2], x[3]) # <<"none">>
            /\ Seen(x[1], x[2], x[3]) # Old(x[1], x[2], x[3])})
      \cup
      \* not touched by c and absent before: nothing may appear
      Flag("foreign-element", {x \in Elems :
            /\ Old(x[1], x[2], x[3]) = New(x[1], x[2], x[3]) /\ Old(x[1], x[2], x[3]) = <<"none">>
            /\ Seen(x[1], x[2], x[3]) # <<"none">>})
      \cup
      \* touched by the interrupted call: its effect or no effect, per element
      Flag("element-neither-old-nor-new", {x \in Elems :
            /\ Old(x[1], x[2], x[3]) # New(x[1], x[2], x[3])
            /\ Seen(x[1], x[2], x[3]) # Old(x[1], x[2], x[3])
            /\ Seen(x[1], x[2], x[3]) # New(x[1], x[2], x[3])})
Admissible(s, c, s2) == AdmBad(s, c, s2) = {}

------------------------------------------------------------------------
(* Integrity of one graph's observation o:                                 *)
(*  o.V, o.E        listings (id -> record)            o.dupV, o.dupE  ids listed twice *)
(*  o.getV, o.getE  lookups  (probe id -> <<"none">> | <<"some", record>>)               *)
(*  o.vlabels, o.elabels  label listings (sequences)   o.byLabel  label -> seq of ids    *)
(*  o.adj[oi]       for label filter LabelOpts[oi]: outE, inE : v -> seq of [id,label,from,to] *)
(*                                                   out, in   : v -> seq of [id,label]        *)
(*  o.listed        the graph appears in the graph listing                                *)
EdgeAnswerOK(o, x, oi) ==
  /\ x.id \in DOMAIN o.E
  /\ o.E[x.id].label = x.label /\ o.E[x.id].from = x.from /\ o.E[x.id].to = x.to
  /\ LabelOK(LabelOpts[oi], x.label)
VertexAnswerOK(o, x) == x.id \in DOMAIN o.V /\ o.V[x.id].label = x.label
Times(q, id) == Cardinality({j \in DOMAIN q : q[j].id = id})

\* every lookup / adjacency / label-index ANSWER refers to an element of the listing
LookupDangling(o) == \/ \E id \in DOMAIN o.getV : o.getV[id] # <<"none">> /\ o.getV[id] # Look(o.V, id)
                     \/ \E id \in DOMAIN o.getE : o.getE[id] # <<"none">> /\ o.getE[id] # Look(o.E, id)
AdjDangling(o) == \E oi \in DOMAIN o.adj : \E v \in VIds :
   \/ \E j \in DOMAIN o.adj[oi].outE[v] : LET x == o.adj[oi].outE[v][j] IN ~(EdgeAnswerOK(o, x, oi) /\ x.from = v)
   \/ \E j \in DOMAIN o.adj[oi].inE[v]  : LET x == o.adj[oi].inE[v][j]  IN ~(EdgeAnswerOK(o, x, oi) /\ x.to = v)
   \/ \E j \in DOMAIN o.adj[oi].out[v]  : ~VertexAnswerOK(o, o.adj[oi].out[v][j])
   \/ \E j \in DOMAIN o.adj[oi].in[v]   : ~VertexAnswerOK(o, o.adj[oi].in[v][j])
LabelDangling(o) ==
   \/ \E lb \in DOMAIN o.byLabel : \E j \in DOMAIN o.byLabel[lb] :
         LET v == o.byLabel[lb][j] IN v \notin DOMAIN o.V \/ o.V[v].label # lb
   \/ \E j \in DOMAIN o.vlabels : o.vlabels[j] \notin {o.V[v].label : v \in DOMAIN o.V}
   \/ \E j \in DOMAIN o.elabels : o.elabels[j] \notin {o.E[e].label : e \in DOMAIN o.E}

\* every listed ELEMENT is reachable through lookup, adjacency and the label index
LookupMissing(o) == \/ \E id \in DOMAIN o.getV : o.getV[id] = <<"none">> /\ id \in DOMAIN o.V
                    \/ \E id \in DOMAIN o.getE : o.getE[id] = <<"none">> /\ id \in DOMAIN o.E
\* number of edges v -> w (dir "out") / w -> v (dir "in") passing label filter oi
Expected(o, oi, v, w, dir) ==
  Cardinality({e \in DOMAIN o.E : /\ LabelOK(LabelOpts[oi], o.E[e].label)
                                   /\ IF dir = "out" THEN o.E[e].from = v /\ o.E[e].to = w
                                                      ELSE o.E[e].to = v /\ o.E[e].from = w})
AdjMissing(o) == \E oi \in DOMAIN o.adj :
   \/ \E e \in DOMAIN o.E : LET r == o.E[e] IN LabelOK(LabelOpts[oi], r.label) /\
        \/ (r.from \in VIds /\ Times(o.adj[oi].outE[r.from], e) = 0)
        \/ (r.to \in VIds /\ Times(o.adj[oi].inE[r.to], e) = 0)
   \/ \E v \in VIds : \E w \in DOMAIN o.V :
        \/ Times(o.adj[oi].out[v], w) < Expected(o, oi, v, w, "out")
        \/ Times(o.adj[oi].in[v], w) < Expected(o, oi, v, w, "in")
LabelMissing(o) ==
   \/ \E v \in DOMAIN o.V : LET lb == o.V[v].label IN lb \in DOMAIN o.byLabel /\ v \notin SeqToSet(o.byLabel[lb])
   \/ \E v \in DOMAIN o.V : o.V[v].label \notin SeqToSet(o.vlabels)
   \/ \E e \in DOMAIN o.E : o.E[e].label \notin SeqToSet(o.elabels)

\* one element, one entry
Multiplicity(o) ==
   \/ o.dupV # <<>> \/ o.dupE # <<>>
   \/ \E oi \in DOMAIN o.adj : \E v \in VIds :
        \/ \E e \in DOMAIN o.E : Times(o.adj[oi].outE[v], e) > 1 \/ Times(o.adj[oi].inE[v], e) > 1
        \/ \E w \in DOMAIN o.V : \/ Times(o.adj[oi].out[v], w) > Expected(o, oi, v, w, "out")
                                  \/ Times(o.adj[oi].in[v], w) > Expected(o, oi, v, w, "in")
   \/ \E lb \in DOMAIN o.byLabel : \E i, j \in DOMAIN o.byLabel[lb] : i < j /\ o.byLabel[lb][i] = o.byLabel[lb][j]
   \/ \E i, j \in DOMAIN o.vlabels : i < j /\ o.vlabels[i] = o.vlabels[j]
   \/ \E i, j \in DOMAIN o.elabels : i < j /\ o.elabels[i] = o.elabels[j]

\* lenient: the history re-labelled an element (C03 open finding): stale label entries are not judged
IntegrityBad(o, lenient) ==
     (IF LookupDangling(o) THEN {"lookup-dangling"} ELSE {})
  \cup (IF AdjDangling(o) THEN {"adjacency-dangling"} ELSE {})
  \cup (IF LabelDangling(o) /\ ~lenient THEN {"label-index-dangling"} ELSE {})
  \cup (IF LookupMissing(o) THEN {"element-not-found-by-id"} ELSE {})
  \cup (IF AdjMissing(o) THEN {"element-not-reachable-by-adjacency"} ELSE {})
  \cup (IF LabelMissing(o) THEN {"element-not-reachable-by-label"} ELSE {})
  \cup (IF Multiplicity(o) THEN {"duplicate-entries"} ELSE {})
  \cup (IF ~o.listed THEN {"graph-not-listed"} ELSE {})
Integrity(o) == IntegrityBad(o, FALSE) = {}

ObsState(obs) == [g \in DOMAIN obs |-> [V |-> obs[g].V, E |-> obs[g].E]]
AllIntegrityBad(obs, lenient) == UNION {IntegrityBad(obs[g], lenient) : g \in DOMAIN obs}

------------------------------------------------------------------------
(* Mode "judge": one line of obs.ndjson per step.                         *)
(*  kind "state"  [i, state]                 -> Obs(state) (oracle table for clean restarts) *)
(*  kind "crash"  [i, calls, call, obs]      -> calls ran to completion, `call` was interrupted, *)
(*                                              obs was read back after reopening              *)
(*  kind "cont"   [i, calls, interrupted, from, call, obs] -> after a crash (of `interrupted`)    *)
(*                                              whose outcome `from` was admissible               *)
(*                                              and had Integrity, `call` ran to completion       *)
(*  kind "done"   [i, calls, call, obs]      -> `call` ran to completion, then the store was      *)
(*                                              reopened and read back                            *)
ObsFile == IF Mode = "judge" THEN ndJsonDeserialize("obs.ndjson") ELSE <<>>
Verdict(x) ==
  CASE x.kind = "state" -> [i |-> x.i, obs |-> Obs(x.state)]
    [] x.kind = "crash" ->
         LET f == RunCalls(x.calls)
             s == f[Len(x.calls)]
             lenient == LenientRelabel /\ (AnyRelabel(x.calls) \/ Relabels(s, x.call))
         IN [i |-> x.i, before |-> s, after |-> Eff(s, x.call)[1], lenient |-> lenient,
             adm |-> AdmBad(s, x.call, ObsState(x.obs)),
             integ |-> AllIntegrityBad(x.obs, lenient)]
    [] x.kind = "cont" ->
         LET f == RunCalls(x.calls)
             lenient == LenientRelabel /\ (AnyRelabel(x.calls) \/ Relabels(f[Len(x.calls)], x.interrupted) \/ Relabels(x.from, x.call))
             r == Eff(x.from, x.call)
         IN [i |-> x.i, res |-> r[2], after |-> r[1], lenient |-> lenient,
             same |-> ObsState(x.obs) = r[1],
             integ |-> AllIntegrityBad(x.obs, lenient)]
    [] x.kind = "done" ->
         LET f == RunCalls(x.calls)
             s == f[Len(x.calls)]
             r == Eff(s, x.call)
             lenient == LenientRelabel /\ (AnyRelabel(x.calls) \/ Relabels(s, x.call))
         IN [i |-> x.i, res |-> r[2], after |-> r[1], lenient |-> lenient,
             same |-> ObsState(x.obs) = r[1],
             integ |-> AllIntegrityBad(x.obs, lenient)]
JudgeInit == gs = <<>> /\ hist = <<>> /\ fin = FALSE /\ rset = {} /\ l = 1
JudgeNext == l <= Len(ObsFile) /\ l' = l + 1 /\ UNCHANGED <<gs, hist, fin, rset>>
EmitVerdict == (Mode = "judge" /\ l <= Len(ObsFile)) => Emit("verdict", Verdict(ObsFile[l]))

RInit == IF Mode = "gen" THEN GenInit ELSE JudgeInit
RNext == IF Mode = "gen" THEN GenNext ELSE JudgeNext
RSpec == RInit /\ [][RNext]_rvars

------------------------------------------------------------------------
(* properties of the abstract spec itself (Mode "gen")                    *)
\* Transparent: the state after any history equals the state of the twin that ran the same calls without the restarts
CallsOnly(h) == LET q == SelectSeq(h, LAMBDA e : e.call.op # "Restart") IN [i \in DOMAIN q |-> q[i].call]
Transparent == Mode = "gen" => LET cs == CallsOnly(hist) IN gs = RunCalls(cs)[Len(cs)]
\* the specification's own observations have Integrity, and finishing or not starting a call is an admissible crash outcome
SpecObs(s) == [g \in DOMAIN s |->
   LET G == s[g] O == ObsG(G) IN
   [V |-> G.V, E |-> G.E, dupV |-> <<>>, dupE |-> <<>>, listed |-> TRUE,
    getV |-> [id \in VIds \cup {"z"} |-> Look(G.V, id)], getE |-> [id \in {"e1", "e2", "e9"} |-> Look(G.E, id)],
    vlabels |-> SetToSeq(O.vlabels), elabels |-> SetToSeq(O.elabels),
    byLabel |-> [lb \in DOMAIN O.byLabel |-> SetToSeq(O.byLabel[lb])],
    adj |-> [oi \in DOMAIN LabelOpts |->
       [outE |-> [v \in VIds |-> SetToSeq({[id |-> e, label |-> G.E[e].label, from |-> G.E[e].from, to |-> G.E[e].to] : e \in O.adj[v][oi].outE})],
        inE  |-> [v \in VIds |-> SetToSeq({[id |-> e, label |-> G.E[e].label, from |-> G.E[e].from, to |-> G.E[e].to] : e \in O.adj[v][oi].inE})],
        out  |-> [v \in VIds |-> LET ps == SetToSeq(O.adj[v][oi].out) IN [j \in DOMAIN ps |-> [id |-> ps[j][2], label |-> G.V[ps[j][2]].label]]],
        in   |-> [v \in VIds |-> LET ps == SetToSeq(O.adj[v][oi].in) IN [j \in DOMAIN ps |-> [id |-> ps[j][2], label |-> G.V[ps[j][2]].label]]]]]]]
SelfCheck == Mode = "gen" =>
   /\ AllIntegrityBad(SpecObs(gs), FALSE) = {}
   /\ \A c \in Calls : Enabled(c) => Admissible(gs, c, gs) /\ Admissible(gs, c, Eff(gs, c)[1])
EmitHistR == (Mode = "gen" /\ fin) => Emit("hist", hist)
=======================================================================
