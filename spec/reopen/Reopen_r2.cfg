CONSTANTS
 Mode = "gen"
 HistLen = 3
 LenientRelabel = FALSE
 NeedGraph = FALSE
 RestartSets = {{1}, {2}}
INIT RInit
NEXT RNext
INVARIANT EmitHistR
INVARIANT Transparent
CHECK_DEADLOCK FALSE
